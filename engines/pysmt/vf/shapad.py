"""C07 part P — variable-length SHA-256: padding and block-selection logic (NOT the compression function).

Extractor family `sha256pad` (engines/extract/src/sha256pad.rs, hook H13): the real private helpers
`final_block_len`, `compute_padding`, `merge_chunks`, `insert_in_array` of `VarLenSha256Gadget` run on an input
vector created by the real `VectorGadget::assign`; every buffer byte and the length are exposed as inputs, the
final-chunk length, the extra-block flag and the two 64-byte padding blocks as outputs.

Specification = FIPS 180-4 section 5.1.1 ("Suppose that the length of the message M is l bits. Append the bit 1
to the end of the message, followed by k zero bits, where k is the smallest non-negative solution of
l + 1 + k = 448 mod 512. Then append the 64-bit block that is equal to the number l expressed using a binary
representation"), applied to the last 64-byte chunk of the message, as a case split on the concrete message
length. Nothing here is derived from the gadget's code."""
import os, random, time
from concurrent.futures import ThreadPoolExecutor
from . import core, csmt, cengine
from .cspec import *       # noqa: F401,F403
from .vecmap import lims, EarlyZeroEnc, use_encoder

P = csmt.P_BLS
FAMILY = "sha256pad"
K = 13            # 2^13 rows: the SHA-256 chip's spread table has to fit (k = 12 panics in the real configure/load)
CHUNK = 64
FUNCS_PAD = ["VarLenSha256Gadget::compute_padding", "VarLenSha256Gadget::final_block_len", "VarLenSha256Gadget::merge_chunks",
             "VarLenSha256Gadget::insert_in_array", "VectorGadget::assign", "circuits/src/hash/sha256/sha256_varlen.rs"]


# ------------------------------------------------------------------------------------ FIPS 180-4, 5.1.1
def final_chunk_len(n):
    """number of message bytes in the LAST 64-byte chunk of an n-byte message as the gadget's caller cuts it
    (sha256_varlen.rs, comment of final_block_len: 0 for the empty message, otherwise in (0, 64])."""
    return 0 if n == 0 else (n - 1) % CHUNK + 1


def padded_tail(n):
    """The blocks of the padded message that follow its last FULL-or-partial chunk boundary, i.e. everything from
    the start of the last chunk: [("d", j) | ("c", byte)], 64 or 128 entries. ("d", j) = j-th data byte of the last
    chunk. Straight from the standard: l = 8 n; append bit 1, k zero bits (k least >= 0 with l + 1 + k = 448 mod 512),
    then l as a 64-bit big-endian integer. l is a multiple of 8, hence k = 7 mod 8: the appended bits are the byte
    0x80, (k - 7) / 8 zero bytes and the 8 length bytes."""
    l = 8 * n
    k = (448 - (l + 1)) % 512
    assert k % 8 == 7 and l < 1 << 64
    L = final_chunk_len(n)
    tail = [("d", j) for j in range(L)] + [("c", 0x80)] + [("c", 0)] * ((k - 7) // 8) + [("c", b) for b in l.to_bytes(8, "big")]
    assert len(tail) in (CHUNK, 2 * CHUNK) and (len(tail) == 2 * CHUNK) == (L + 1 + 8 > CHUNK)
    return tail


def pad_split(M, I, O):
    """instance layout of op=padding: inputs buffer[0..M], len; outputs fcl, extra, padding[0..128]."""
    return list(I[:M]), I[M], O[0], O[1], list(O[2:2 + 2 * CHUNK])


def padding_case(M, n, buf, fcl, extra, pad):
    """What 5.1.1 requires of the gadget's outputs when the message has n bytes. The data bytes of the last chunk
    are located by the DOCUMENTED layout of AssignedVector<_, _, M, 64> (vecmap.lims). Every output byte that enters
    a compression is determined: it is a data byte at a position < L of the last chunk or a constant. Buffer cells
    outside the payload do not occur here at all, so they are universally quantified in `Sys => Spec`.
    When no extra block is needed the gadget's first block is discarded by the caller (`conditional_update_state`
    with update = extra_block); it is then not specified."""
    L = final_chunk_len(n)
    s, e = lims(M, CHUNK, n)
    assert e - L >= 0 and (L == 0 or e - L == M - CHUNK)
    tail = padded_tail(n)
    two = len(tail) == 2 * CHUNK
    outs = pad if two else pad[CHUNK:]
    val = lambda t: buf[e - L + t[1]] if t[0] == "d" else t[1]
    return AND(eq(fcl, L), eq(extra, 1 if two else 0), *[eq(o, val(t)) for o, t in zip(outs, tail)])


def S_padding_len(M, n):
    def spec(e, I, O):
        buf, ln, fcl, extra, pad = pad_split(M, I, O)
        return IMP(eq(ln, n), padding_case(M, n, buf, fcl, extra, pad))
    return spec


def S_padding_dom(M):
    """the case split over n = 0..M is exhaustive: the length cell of an assigned vector is in [0, M]; and the two
    control outputs as functions of the length alone, for every length at once."""
    def spec(e, I, O):
        buf, ln, fcl, extra, pad = pad_split(M, I, O)
        return AND(le(ln, M), *[IMP(eq(ln, n), AND(eq(fcl, final_chunk_len(n)), eq(extra, 1 if final_chunk_len(n) + 9 > CHUNK else 0)))
                                for n in range(M + 1)])
    return spec


def S_merge(L):
    """merge_chunks doc: "selecting the first `len` bytes of the first chunk, and the remaining bytes of second
    chunk. If `len` >= L, the output will be equal to `chunk_1`. If `len` = 0, the output will be equal to
    `chunk_2`" - for EVERY field element len (read as the integer in [0, p))."""
    def spec(e, I, O):
        a, b, ln = I[:L], I[L:2 * L], I[2 * L]
        return AND(*[eq(O[i], ITE(lt(i, ln), a[i], b[i])) for i in range(L)])
    return spec


def S_insert(L):
    """insert_in_array doc: "Inserts `elem` in position `idx` of `array`. Idx values outside [0, L) are allowed
    but, in that case, the array will remain unchanged"."""
    def spec(e, I, O):
        a, elem, idx = I[:L], I[L], I[L + 1]
        return AND(*[eq(O[i], ITE(eq(idx, i), elem, a[i])) for i in range(L)])
    return spec


# ------------------------------------------------------------------------------------------------ encoder
_BASE_ENC = EarlyZeroEnc.__mro__[1]     # the real csmt.Enc (the module attribute csmt.Enc is swapped by use_encoder)


class PadEnc(EarlyZeroEnc):
    """EarlyZeroEnc specialised for systems that consist of hundreds of `is_equal_to_fixed(x, i)` gadgets on the
    same few cells (merge_chunks / insert_in_array: 184 of them in compute_padding).

    The is-zero gadget on a ONE-cell linear form, rows  a*(c*x + k) + r - 1 = 0  and  r*(c*x + k) = 0  (a the
    inverse hint, c != 0 a constant), implies r = [c*x + k = 0 in F_p] = [x = -k/c mod p] whatever a is (no zero
    divisors; x ranges over [0, p)). That fact is stated as `r = ite(x = K, 1, 0)` with the constant K = -k/c
    computed here (instead of a fresh modular definition of the linear form), and the two product rows are then
    LEFT OUT of the encoding: they are the only rows the hint a occurs in, leaving out hypotheses is sound for
    `Sys => Spec` (unsat stays valid), and every model is still re-checked exactly against ALL extracted rows by
    cengine (the hint is re-solved by EarlyZeroEnc.repair_model). Measured on compute_padding: 367 abstract
    products with 11 000 pairwise cancellation lemmas (> 90 s, both solvers) become 0 products."""

    def iszero_single(self, polys):
        P = self.P
        first, second = {}, {}
        for poly in polys:
            const, lin, quad, high = self.split_poly(poly)
            if high or len(quad) != 1:
                continue
            c, u, v = quad[0]
            if u == v:
                continue
            for a, x in ((u, v), (v, u)):
                # a*(c x + k) + r - 1 :  lin = {a: k, r: 1}, const = -1   (k may be 0)
                others = [n for n in lin if n != a]
                if const == P - 1 and len(others) == 1 and lin[others[0]] == 1 and others[0] != x:
                    first[(a, x)] = (others[0], c, lin.get(a, 0) % P, poly)
                # r*(c x + k) :  lin = {r: k} or {}, const = 0
                if const == 0 and all(n == a for n in lin):
                    second[(a, x)] = (c, lin.get(a, 0) % P, poly)
        dropped = set()
        for (a, x), (r, c, k, poly1) in first.items():
            hit = second.get((r, x))
            if hit is None or self.occ.get(a, 0) != 1:
                continue
            c2, k2, poly2 = hit
            if (c2, k2) not in ((c, k), ((-c) % P, (-k) % P)):
                continue
            K = (-k) * pow(c, -1, P) % P
            self.lines.append(f"(assert (= {r} (ite (= {x} {K}) 1 0)))")
            self.set_bound(r, 2)
            self.bool_atoms.add(r)
            dropped.add(id(poly1))
            dropped.add(id(poly2))
        return dropped

    def infer_bounds(self, polys):
        self._iz_dropped = self.iszero_single(polys)
        rest = [p for p in polys if id(p) not in self._iz_dropped]
        _BASE_ENC.iszero_lemmas(self, rest)
        self._iz_done = True
        return _BASE_ENC.infer_bounds(self, rest)

    def constraint(self, poly, monomial_mode=False):
        if id(poly) in getattr(self, "_iz_dropped", ()):
            return
        return super().constraint(poly, monomial_mode)


# ------------------------------------------------------------------------------------------ honest inputs
def msg_input(M, n, rnd):
    """`in=` of op=padding: <len> then M slots (first n = payload)."""
    return [n] + [rnd.randrange(256) for _ in range(n)] + [0] * (M - n)


def lengths(M, tier, seed):
    if tier != "quick":
        return list(range(M + 1))
    rnd = random.Random(7700 + seed + M)
    base = {0, 1, 54, 55, 56, 57, 63, 64}
    if M > CHUNK:
        base = {0, 64, 65, M - 64 + 55, M - 64 + 56, M - 1, M}
    pool = [n for n in range(M + 1) if n not in base]
    return sorted(base | set(rnd.sample(pool, 3)))


# ------------------------------------------------------------------------------------------------ driver
def decide_one(run, oid, what, op, params, ins, spec, key, timeout, alt=(), bound=""):
    ob = core.Ob(oid, "C", what, functions=FUNCS_PAD, bound=bound or f"k={K} params={cengine.pstr(params)}", key=key)
    run.add(ob)
    t0 = time.time()
    try:
        cengine.decide(run, ob, FAMILY, op, params, ins, spec, k=K, timeout=timeout)
        # completeness direction, concrete (not the deciding step): the honest witness for alternative admissible
        # inputs (other data, non-zero filler bytes) must be accepted and must emit the same structure
        if ob.status == core.HOLDS and alt:
            base = cengine.structure_hash(cengine.extract(FAMILY, op, params, ins, K))
            for ap, ai in alt:
                s2 = cengine.extract(FAMILY, op, ap, ai, K)
                if not s2.d["honest_verify"]:
                    ob.key += ":honest-rejected"
                    ob.set(core.VIOLATION, f"real MockProver rejects the honest witness of {op} {cengine.pstr(ap)} on admissible inputs",
                           replay=run.write_replay(ob, dict(kind="honest-rejected", engine_part="P", cx=cengine.cx_args(FAMILY, op, ap, ai, K))))
                    break
                if cengine.structure_hash(s2) != base:
                    ob.set(core.INCONCLUSIVE, f"emitted structure depends on the witness ({cengine.pstr(ap)})")
                    break
        if ob.status in (core.VIOLATION, core.KNOWN) and op == "padding" and ob.replay:
            try:
                import json
                pl = json.load(open(ob.replay))
                if pl.get("instance"):
                    who = "the chip's own honest run (accepted by the real MockProver) has an instance column that" if pl.get("kind") == "honest-output" \
                        else "the real MockProver accepts a forged assignment whose instance column"
                    ob.detail = f"{who} violates the specification: " + explain_instance(pl["cx"], pl["instance"])
            except Exception:  # noqa
                pass
    except cengine.ExtractPanic as ex:
        ob.key += ":honest-panics"
        ob.set(core.VIOLATION, f"the real synthesis panics on admissible inputs: {ex}",
               replay=run.write_replay(ob, dict(kind="honest-panics", engine_part="P", cx=cengine.cx_args(FAMILY, op, params, ins, K))))
    except Exception as ex:  # noqa
        import traceback
        ob.set(core.INCONCLUSIVE, f"engine error: {ex!r} {traceback.format_exc()[-400:]}")
    run.log(f"{ob.status:12s} {oid} {ob.solver or ''} {ob.solver_s:.1f}s wall {time.time() - t0:.1f}s {ob.detail[:200]}")
    return ob


def keygen_one(run, oid, op, params, ins):
    ob = core.Ob(oid + ":keygen", "C", "the verifying key generated by the real keygen_vk commits to the same copy constraints and fixed columns as the development-time checker sees",
                 functions=["midnight_proofs::plonk::keygen_vk", "permutation::keygen::Assembly::copy", "dev::MockProver::copy"],
                 bound=f"k={K} params={cengine.pstr(params)}", key=f"{FAMILY}/{op}:keygen-vs-checker-structure")
    run.add(ob)
    try:
        sysk = cengine.extract(FAMILY, op, params, ins, K, keygen=True)
        cengine.keygen_structure(run, ob, sysk, FAMILY, op, params, ins, K, timeout=120)
    except Exception as ex:  # noqa
        ob.set(core.INCONCLUSIVE, f"keygen structure comparison failed: {ex!r}")
    run.log(f"{ob.status:12s} {ob.id} {ob.detail[:200]}")
    return ob


def jobs(tier, seed):
    """[(oid, what, op, params, ins, spec, key, alt)]"""
    J = []
    rnd = random.Random(7800 + seed)
    for M in ([64, 128] if tier == "quick" else [64, 128, 256]):
        ns = lengths(M, tier, seed) if M <= 128 else sorted({0, 1, 64, 128, 129, 192, 247, 248, 255, 256})
        params = {"M": M}
        J.append((f"C07/P/sha256pad/padding[M={M}]/control", "for every assignment: len <= M, final-chunk length and extra-block flag are the documented functions of len (all lengths at once)",
                  "padding", params, msg_input(M, M - 8, rnd), S_padding_dom(M), "sha256pad/padding:control", []))
        for n in ns:
            ins = msg_input(M, n, rnd)
            alt = [({"M": M, "filler": 255}, ins)]
            J.append((f"C07/P/sha256pad/padding[M={M}]/len={n}",
                      f"message of {n} bytes in an AssignedVector<_, AssignedByte, {M}, 64>: the constraints emitted by final_block_len + compute_padding imply that the block(s) handed to the compression function are the FIPS 180-4 5.1.1 padding of the last chunk (data[0..L] ++ 0x80 ++ 0x00* ++ be64(8 len)), for EVERY value of every buffer byte outside the payload",
                      "padding", params, ins, S_padding_len(M, n), f"sha256pad/padding:len-{final_chunk_len(n)}-mod-64", alt))
    for L in ([4, 56, 64] if tier == "quick" else [4, 7, 56, 64]):
        a = [rnd.randrange(256) for _ in range(L)]
        b = [rnd.randrange(256) for _ in range(L)]
        ln = rnd.randrange(1, L)
        alt = [({"L": L}, a + b + [x]) for x in (0, L, L + 1, P - 1)]
        J.append((f"C07/P/sha256pad/merge_chunks[L={L}]", f"merge_chunks on {L}-byte chunks, for every field element len: out[i] = chunk_1[i] if i < len else chunk_2[i]",
                  "merge", {"L": L}, a + b + [ln], S_merge(L), "sha256pad/merge_chunks", alt))
    for L in [4, 64]:
        a = [rnd.randrange(256) for _ in range(L)]
        alt = [({"L": L}, a + [7, x]) for x in (0, L - 1, L, P - 1)]
        J.append((f"C07/P/sha256pad/insert_in_array[L={L}]", f"insert_in_array on {L} bytes, for every field element idx: out[i] = elem if idx = i else array[i]",
                  "insert", {"L": L}, a + [0x80, rnd.randrange(L)], S_insert(L), "sha256pad/insert_in_array", alt))
    return J


def run_all(run, only=None, workers=6):
    tier, seed = core.tier(), core.seed()
    timeout = 90 if tier == "quick" else 600
    J = [j for j in jobs(tier, seed) if not only or only in j[0]]
    cengine.build(run)
    with use_encoder(PadEnc):
        with ThreadPoolExecutor(workers) as ex:
            list(ex.map(lambda j: decide_one(run, j[0], j[1], j[2], j[3], j[4], j[5], j[6], timeout, alt=j[7]), J))
    # one verifying-key comparison per circuit shape (the structure does not depend on the witness: checked above)
    seen = set()
    for j in J:
        shape = (j[2], cengine.pstr(j[3]))
        if shape in seen:
            continue
        seen.add(shape)
        keygen_one(run, f"C07/P/sha256pad/{j[2]}[{shape[1]}]", j[2], j[3], j[4])
    return J


def explain_instance(cx, inst):
    """human-readable reading of a recorded (inputs, outputs) instance of op=padding: the blocks that were
    accepted against the numerically evaluated FIPS 180-4 5.1.1 padding of the same message."""
    M = int([a for a in cx if a.startswith("p.M=")][0][4:])
    rows = sorted(inst, key=lambda c: int(c.split("_")[1]))
    vals = [int(inst[c], 16) for c in rows]
    buf, n, fcl, extra, pad = vals[:M], vals[M], vals[M + 1], vals[M + 2], vals[M + 3:M + 3 + 2 * CHUNK]
    if not 0 <= n <= M:
        return f"len cell = {n} (outside [0, {M}])"
    L = final_chunk_len(n)
    s, e = lims(M, CHUNK, n)
    want = [buf[e - L + t[1]] if t[0] == "d" else t[1] for t in padded_tail(n)]
    got = pad if len(want) == 2 * CHUNK else pad[CHUNK:]
    diff = [i for i, (a, b) in enumerate(zip(got, want)) if a != b]
    return (f"message length {n} (last chunk holds {L} bytes); accepted final_chunk_len={fcl} extra_block={extra};\n"
            f"  accepted block(s): {bytes(x % 256 for x in got).hex() if all(0 <= x < 256 for x in got) else got}\n"
            f"  FIPS 180-4 5.1.1 : {bytes(want).hex()}\n"
            f"  differing byte positions: {diff}")
