"""Engine M (mir2smt): symbolic execution of loop-free MIR bodies into SMT-LIB over Int.

Semantics (DESIGN.md 2.M): every machine integer is an Int carrying its mathematical value; every
truncation / shift / wrap introduces FRESH lo, hi with `x = lo + 2^k*hi` and range bounds (never
div/mod terms).  `AddWithOverflow` & co. yield the exact result plus the overflow flag; the flag ends up
in an `assert` terminator, which is recorded as a panic site (obligation: unreachable) and then assumed
on the success edge.  A product of two symbolic words is either the nonlinear term `(* a b)` or an opaque
bounded variable pi(a,b) shared by congruence (mode 'opaque'); the caller picks.

The interpreter is value-polymorphic: with concrete inputs everything folds to Python ints, which is how
named constants are read from their MIR const bodies and how CTFE-built constants are evaluated.

Anything that cannot be translated raises Untranslatable: the obligations that need the body become
INCONCLUSIVE, never skipped."""
import re, itertools

from vf import mir_parse as mp
from vf.mir_parse import parse_ty, INT_TYPES


class Untranslatable(Exception):
    pass


class PathFork(Exception):
    """raised internally to restart with another decision prefix"""


def I(x):
    return str(x) if x >= 0 else f"(- {-x})"


# --------------------------------------------------------------------------------------------
# values
# --------------------------------------------------------------------------------------------
class S:
    """symbolic integer: SMT term of sort Int + machine type + optional facts used only to pick exact
    encodings of bit operations (mult: value is a multiple of; ub: value < ub)."""
    __slots__ = ("t", "ty", "mult", "ub")

    def __init__(self, t, ty, mult=1, ub=None):
        self.t, self.ty, self.mult, self.ub = t, ty, mult, ub

    def __repr__(self):
        return f"S({self.t}:{self.ty})"


class B:
    """symbolic boolean (SMT Bool term)"""
    __slots__ = ("t",)

    def __init__(self, t):
        self.t = t

    def __repr__(self):
        return f"B({self.t})"


class Pending:
    """result .0 of a *WithOverflow op: exact value, valid as machine value only when `flag` is false"""
    __slots__ = ("exact", "flag", "ty", "op", "a", "b")

    def __init__(self, exact, flag, ty):
        self.exact, self.flag, self.ty = exact, flag, ty


class Agg:
    """tuple / struct / array / enum payload; fields materialise lazily for symbolic ADTs"""
    __slots__ = ("f", "ty", "variant", "lazy")

    def __init__(self, fields, ty=None, variant=None, lazy=None):
        self.f = fields          # dict index -> value   (arrays: 0..n-1)
        self.ty = ty
        self.variant = variant
        self.lazy = lazy         # callable(index, ty_str) -> value, for symbolic inputs

    def __repr__(self):
        return f"Agg{self.ty}({self.f})"


class Cell:
    __slots__ = ("v",)

    def __init__(self, v=None):
        self.v = v


class Ref:
    """reference to a place: cell + path of ('field', i) / ('index', i); optional slice window"""
    __slots__ = ("cell", "path", "win")

    def __init__(self, cell, path=(), win=None):
        self.cell, self.path, self.win = cell, tuple(path), win

    def __repr__(self):
        return f"Ref({self.path},{self.win})"


class Opaque:
    """abstract value (e.g. field element in UF mode): SMT term + type name"""
    __slots__ = ("t", "ty")

    def __init__(self, t, ty):
        self.t, self.ty = t, ty

    def __repr__(self):
        return f"Opaque({self.t}:{self.ty})"


UNIT = Agg({}, "()")


def ty_range(name):
    bits, signed = INT_TYPES[name]
    if signed:
        return -(1 << (bits - 1)), (1 << (bits - 1)) - 1
    return 0, (1 << bits) - 1


# --------------------------------------------------------------------------------------------
# SMT context
# --------------------------------------------------------------------------------------------
class Ctx:
    def __init__(self, product="nonlinear"):
        self.decl = []           # declarations, definitions and range facts (always-true facts)
        self.n = 0
        self.product = product   # 'nonlinear' | 'opaque'
        self.pi = {}             # (a,b) -> name  (opaque products)
        self.pathcond = []       # conjuncts assumed on the current path (switch decisions, assert successes)
        self.panics = []         # [(pathcond_snapshot, failing_condition_term, message, where)]
        self.notes = []          # named intermediate values, e.g. ('wrapping_mul', result, a, b)
        self.asserted_false = set()
        self.vars = []           # fresh variable names
        self.splits = {}         # (term, k) -> (lo, hi): one split per value and position
        self.folded_asserts = 0  # asserts whose condition folded to a concrete `true`

    def fresh(self, lo, hi, hint="v"):
        """fresh Int with lo <= v <= hi"""
        self.n += 1
        nm = f"{hint}!{self.n}"
        self.decl.append(f"(declare-const {nm} Int)")
        self.decl.append(f"(assert (and (<= {I(lo)} {nm}) (<= {nm} {I(hi)})))")
        self.vars.append(nm)
        return nm

    def fresh_bool(self, hint="b"):
        self.n += 1
        nm = f"{hint}!{self.n}"
        self.decl.append(f"(declare-const {nm} Bool)")
        return nm

    def define(self, expr, hint="t", sort="Int"):
        if re.fullmatch(r"[A-Za-z_][\w!.]*|\d+", expr):
            return expr
        self.n += 1
        nm = f"{hint}!{self.n}"
        self.decl.append(f"(define-fun {nm} () {sort} {expr})")
        return nm

    def fact(self, term):
        """an always-true fact about fresh variables (definitional)"""
        self.decl.append(f"(assert {term})")

    def text(self, upto=None):
        return "(set-logic ALL)\n" + "\n".join(self.decl if upto is None else self.decl[:upto]) + "\n"

    def path_term(self, conds=None):
        c = self.pathcond if conds is None else conds
        if not c:
            return "true"
        return "(and " + " ".join(c) + ")" if len(c) > 1 else c[0]


# --------------------------------------------------------------------------------------------
# interpreter
# --------------------------------------------------------------------------------------------
class Frame:
    def __init__(self, item):
        self.item = item
        self.cells = {}

    def cell(self, l):
        c = self.cells.get(l)
        if c is None:
            c = self.cells[l] = Cell(None)
        return c


class Interp:
    def __init__(self, prog, ctx=None, handlers=None, opaque_types=(), max_steps=200000, decisions=None):
        self.P = prog
        self.ctx = ctx or Ctx()
        self.handlers = list(handlers or []) + DEFAULT_HANDLERS
        self.opaque_types = set(opaque_types)
        self.const_cache = {}
        self.steps = 0
        self.max_steps = max_steps
        self.decisions = list(decisions or [])
        self.taken = []          # decisions taken on this run: [(n_alternatives, chosen)]
        self.depth = 0
        self.call_log = []       # (func path, args, result) for calls to crate fns (white-box hooks)
        self.pre_call_hooks = []  # callables (ip, func, args, arg_tys): may replace argument leaves (cuts)
        self.havoc_pairs = []    # (fresh S, original value) introduced by cuts
        self.uf_calls = []

    # ---------------------------------------------------------------- int helpers
    def is_conc(self, v):
        return isinstance(v, (int, bool)) and not isinstance(v, (S, B))

    def term(self, v):
        if isinstance(v, bool):
            return "true" if v else "false"
        if isinstance(v, int):
            return I(v)
        if isinstance(v, (S, B, Opaque)):
            return v.t
        if isinstance(v, Pending):
            return self.term(self.force(v))
        raise Untranslatable(f"not a scalar: {v!r}")

    def force(self, v):
        """Pending -> machine value"""
        if not isinstance(v, Pending):
            return v
        if v.flag is False or (isinstance(v.flag, B) and v.flag.t in self.ctx.asserted_false):
            return v.exact
        return self.wrap(v.exact, v.ty)

    def wrap(self, v, tyname):
        """reduce exact integer value into the range of tyname (two's complement)"""
        bits, signed = INT_TYPES[tyname]
        if isinstance(v, int):
            m = v & ((1 << bits) - 1)
            if signed and m >= 1 << (bits - 1):
                m -= 1 << bits
            return m
        lo = self.ctx.fresh(0, (1 << bits) - 1, "lo")
        # the quotient is unbounded in general; callers that know better use split()
        self.ctx.n += 1
        hi = f"hi!{self.ctx.n}"
        self.ctx.decl.append(f"(declare-const {hi} Int)")
        self.ctx.fact(f"(= {v.t} (+ {lo} (* {1 << bits} {hi})))")
        if signed:
            r = self.ctx.define(f"(ite (>= {lo} {1 << (bits - 1)}) (- {lo} {1 << bits}) {lo})")
            return S(r, tyname)
        return S(lo, tyname)

    def split(self, v, k, hi_max):
        """v (>=0, symbolic) = lo + 2^k*hi with 0<=lo<2^k, 0<=hi<=hi_max. returns (lo, hi) names"""
        key = (v.t, k)
        got = self.ctx.splits.get(key)
        if got is not None:
            return got
        lo = self.ctx.fresh(0, (1 << k) - 1, "lo")
        hi = self.ctx.fresh(0, hi_max, "hi")
        self.ctx.fact(f"(= {v.t} (+ {lo} (* {1 << k} {hi})))")
        self.ctx.splits[key] = (lo, hi)
        return lo, hi

    def cast_int(self, v, src, dst):
        v = self.force(v)
        if isinstance(v, bool):
            v = int(v)
        if isinstance(v, B):
            return S(self.ctx.define(f"(ite {v.t} 1 0)"), dst, ub=2)
        slo, shi = ty_range(src) if src in INT_TYPES else (0, 1)
        dlo, dhi = ty_range(dst)
        if isinstance(v, int):
            return self.wrap(v, dst)
        if dlo <= slo and shi <= dhi:
            return S(v.t, dst, v.mult, v.ub)
        sbits = INT_TYPES[src][0]
        dbits, dsigned = INT_TYPES[dst]
        if slo >= 0 and not dsigned:
            if v.ub is not None and v.ub <= (1 << dbits):
                return S(v.t, dst, v.mult, v.ub)
            lo, hi = self.split(v, dbits, (1 << (sbits - dbits)) - 1)
            return S(lo, dst)
        return self.wrap(S(v.t, src), dst)

    # ---------------------------------------------------------------- binops
    def binop(self, op, a, b, ty):
        """ty: type name of the operands (result type for arithmetic)"""
        a, b = self.force(a), self.force(b)
        c = self.ctx
        if op in ("Eq", "Ne", "Lt", "Le", "Gt", "Ge"):
            if isinstance(a, (bool, B)) or isinstance(b, (bool, B)):
                ta, tb = self.term(a), self.term(b)
                if isinstance(a, bool) and isinstance(b, bool):
                    return {"Eq": a == b, "Ne": a != b, "Lt": a < b, "Le": a <= b, "Gt": a > b, "Ge": a >= b}[op]
                if op == "Eq":
                    return B(c.define(f"(= {ta} {tb})", "c", "Bool"))
                if op == "Ne":
                    return B(c.define(f"(not (= {ta} {tb}))", "c", "Bool"))
                raise Untranslatable("ordering on bools")
            if isinstance(a, int) and isinstance(b, int):
                return {"Eq": a == b, "Ne": a != b, "Lt": a < b, "Le": a <= b, "Gt": a > b, "Ge": a >= b}[op]
            sm = {"Eq": "=", "Lt": "<", "Le": "<=", "Gt": ">", "Ge": ">="}
            if op == "Ne":
                return B(c.define(f"(not (= {self.term(a)} {self.term(b)}))", "c", "Bool"))
            return B(c.define(f"({sm[op]} {self.term(a)} {self.term(b)})", "c", "Bool"))
        if isinstance(a, (bool, B)) or isinstance(b, (bool, B)):
            if isinstance(a, bool) and isinstance(b, bool):
                return {"BitAnd": a and b, "BitOr": a or b, "BitXor": a != b}[op]
            sm = {"BitAnd": "and", "BitOr": "or", "BitXor": "xor"}
            return B(c.define(f"({sm[op]} {self.term(a)} {self.term(b)})", "c", "Bool"))
        base = op.replace("WithOverflow", "").replace("Unchecked", "")
        lo_t, hi_t = ty_range(ty)
        bits, signed = INT_TYPES[ty]
        if base in ("Add", "Sub", "Mul"):
            if isinstance(a, int) and isinstance(b, int):
                ex = a + b if base == "Add" else a - b if base == "Sub" else a * b
            else:
                ex = self.arith(base, a, b, ty)
            if op.endswith("WithOverflow"):
                if isinstance(ex, int):
                    fl = not (lo_t <= ex <= hi_t)
                    return Agg({0: self.wrap(ex, ty), 1: fl}, "(int,bool)")
                fl = B(c.define(f"(not (and (<= {I(lo_t)} {ex.t}) (<= {ex.t} {I(hi_t)})))", "ovf", "Bool"))
                return Agg({0: Pending(ex, fl, ty), 1: fl}, "(int,bool)")
            if op.endswith("Unchecked"):
                return ex if isinstance(ex, int) else S(ex.t, ty)
            # plain Add/Sub/Mul: wrapping semantics (release arithmetic with checks off)
            if isinstance(ex, int):
                return self.wrap(ex, ty)
            return self.wrap_known(ex, ty, base, a, b)
        if base in ("Shr", "Shl"):
            if not isinstance(b, int):
                raise Untranslatable("shift by a symbolic amount")
            k = b
            if k < 0 or k >= bits:
                raise Untranslatable("shift amount out of range")
            if isinstance(a, int):
                if base == "Shr":
                    return a >> k
                return self.wrap(a << k, ty)
            if signed:
                raise Untranslatable("shift of a signed symbolic value")
            if k == 0:
                return a
            if base == "Shr":
                lo, hi = self.split(a, k, (1 << (bits - k)) - 1)
                return S(hi, ty, ub=1 << (bits - k))
            lo, hi = self.split(a, bits - k, (1 << k) - 1)
            return S(c.define(f"(* {1 << k} {lo})"), ty, mult=1 << k)
        if base == "BitAnd":
            return self.bitand(a, b, ty)
        if base == "BitOr":
            return self.bitor(a, b, ty)
        if base == "BitXor":
            if isinstance(a, int) and isinstance(b, int):
                return a ^ b
            # x ^ y with both in {0,1}
            r = c.fresh(0, hi_t, "xor")
            ta, tb = self.term(a), self.term(b)
            c.fact(f"(=> (= {ta} {tb}) (= {r} 0))")
            c.fact(f"(=> (= {tb} 0) (= {r} {ta}))")
            c.fact(f"(=> (= {ta} 0) (= {r} {tb}))")
            c.fact(f"(=> (= {r} 0) (= {ta} {tb}))")
            c.fact(f"(=> (and (<= {ta} 1) (<= {tb} 1)) (<= {r} 1))")
            return S(r, ty)
        raise Untranslatable("binop " + op)

    def arith(self, base, a, b, ty):
        c = self.ctx
        ta, tb = self.term(a), self.term(b)
        if base == "Add":
            return S(c.define(f"(+ {ta} {tb})"), ty)
        if base == "Sub":
            return S(c.define(f"(- {ta} {tb})"), ty)
        if isinstance(a, int) or isinstance(b, int):
            return S(c.define(f"(* {ta} {tb})"), ty)
        if c.product == "opaque":
            key = tuple(sorted((ta, tb)))
            nm = c.pi.get(key)
            if nm is None:
                la, ha = self.bounds(a)
                lb, hb = self.bounds(b)
                cands = [la * lb, la * hb, ha * lb, ha * hb]
                nm = c.pi[key] = c.fresh(min(cands), max(cands), "pi")
            return S(nm, ty)
        return S(c.define(f"(* {ta} {tb})"), ty)

    def bounds(self, v):
        if isinstance(v, int):
            return v, v
        lo, hi = ty_range(v.ty)
        if v.ub is not None:
            hi = min(hi, v.ub - 1)
        return lo, hi

    def wrap_known(self, ex, ty, base, a, b):
        """wrap an exact Add/Sub/Mul result whose operands are in range of ty"""
        bits, signed = INT_TYPES[ty]
        if signed:
            return self.wrap(ex, ty)
        la, ha = self.bounds(a)
        lb, hb = self.bounds(b)
        c = self.ctx
        if base == "Add":
            lo, hi = self.split(ex, bits, (ha + hb) >> bits)
            return S(lo, ty)
        if base == "Mul":
            lo, hi = self.split(ex, bits, (ha * hb) >> bits)
            return S(lo, ty)
        # Sub: ex in (-2^bits, 2^bits): ex = lo - 2^bits*borrow
        lo = c.fresh(0, (1 << bits) - 1, "lo")
        bo = c.fresh(0, 1, "bo")
        c.fact(f"(= {ex.t} (- {lo} (* {1 << bits} {bo})))")
        return S(lo, ty)

    def bitand(self, a, b, ty):
        c = self.ctx
        if isinstance(a, int) and isinstance(b, int):
            return a & b
        lo_t, hi_t = ty_range(ty)
        bits = INT_TYPES[ty][0]
        if isinstance(a, int):
            a, b = b, a
        if isinstance(b, int):
            # a & constant
            if INT_TYPES[ty][1]:
                raise Untranslatable("bitand on signed")
            m = b
            if m == 0:
                return 0
            if m == hi_t:
                return a
            # (1) a is itself a 0/all-ones mask candidate: exact facts, no side condition needed for soundness
            # (2) general: decompose the constant mask into runs of ones and split a at the run borders
            runs = []
            i = 0
            while i < bits:
                if (m >> i) & 1:
                    j = i
                    while j < bits and (m >> j) & 1:
                        j += 1
                    runs.append((i, j))
                    i = j
                else:
                    i += 1
            if len(runs) == 1 and runs[0][0] == 0:
                k = runs[0][1]
                if a.ub is not None and a.ub <= (1 << k):
                    return a
                lo, hi = self.split(a, k, (1 << (bits - k)) - 1)
                r = S(lo, ty, ub=1 << k)
            elif len(runs) <= 3:
                # a = sum piece_i * 2^pos_i ; result = sum of the pieces under the runs
                borders = sorted({0, bits} | {x for r in runs for x in r})
                pieces = []
                for s_, e_ in zip(borders, borders[1:]):
                    pieces.append((s_, e_, c.fresh(0, (1 << (e_ - s_)) - 1, "bf")))
                c.fact("(= " + a.t + " (+ " + " ".join(f"(* {1 << s_} {nm})" for s_, e_, nm in pieces) + "))")
                sel = [f"(* {1 << s_} {nm})" for s_, e_, nm in pieces if (s_, e_) in runs]
                r = S(c.define("(+ " + " ".join(sel) + ")" if len(sel) > 1 else sel[0]), ty, ub=m + 1)
            else:
                r = None
            # facts for the mask idiom  CONST & mask  with mask in {0, all-ones}
            if r is None:
                rn = c.fresh(0, m, "and")
                r = S(rn, ty, ub=m + 1)
            c.fact(f"(=> (= {a.t} 0) (= {r.t} 0))")
            c.fact(f"(=> (= {a.t} {hi_t}) (= {r.t} {m}))")
            return r
        # symbolic & symbolic: sound facts of AND; exact when one side is 0 / all-ones / both equal / both bits
        r = c.fresh(0, hi_t, "and")
        ta, tb = a.t, b.t
        c.fact(f"(and (<= {r} {ta}) (<= {r} {tb}))")
        c.fact(f"(=> (= {ta} {hi_t}) (= {r} {tb}))")
        c.fact(f"(=> (= {tb} {hi_t}) (= {r} {ta}))")
        c.fact(f"(=> (= {ta} {tb}) (= {r} {ta}))")
        ub = None
        for x in (a, b):
            if x.ub is not None:
                ub = x.ub if ub is None else min(ub, x.ub)
        return S(r, ty, ub=ub)

    def bitor(self, a, b, ty):
        c = self.ctx
        if isinstance(a, int) and isinstance(b, int):
            return a | b
        lo_t, hi_t = ty_range(ty)
        if isinstance(a, int):
            a, b = b, a
        if isinstance(b, int):
            if b == 0:
                return a
            bm = b & -b
            # constant with low zeros vs a small a
            if a.ub is not None and a.ub <= bm:
                return S(c.define(f"(+ {a.t} {b})"), ty)
            r = c.fresh(b, hi_t, "or")
            c.fact(f"(and (>= {r} {a.t}) (<= {r} (+ {a.t} {b})))")
            return S(r, ty)
        # bit-disjoint operands: exact sum
        for x, y in ((a, b), (b, a)):
            if y.ub is not None and x.mult >= y.ub:
                return S(c.define(f"(+ {x.t} {y.t})"), ty, mult=1)
        r = c.fresh(0, hi_t, "or")
        c.fact(f"(and (>= {r} {a.t}) (>= {r} {b.t}) (<= {r} (+ {a.t} {b.t})))")
        c.fact(f"(=> (= {a.t} 0) (= {r} {b.t}))")
        c.fact(f"(=> (= {b.t} 0) (= {r} {a.t}))")
        ub = None
        if a.ub is not None and b.ub is not None:
            m = max(a.ub, b.ub)
            ub = 1 << (m - 1).bit_length()
            c.fact(f"(< {r} {ub})")
        return S(r, ty, ub=ub)

    def unop(self, op, a, ty):
        a = self.force(a)
        if op == "Not":
            if isinstance(a, bool):
                return not a
            if isinstance(a, B):
                return B(self.ctx.define(f"(not {a.t})", "c", "Bool"))
            lo_t, hi_t = ty_range(ty)
            if INT_TYPES[ty][1]:
                if isinstance(a, int):
                    return -a - 1
                return S(self.ctx.define(f"(- (- {a.t}) 1)"), ty)
            if isinstance(a, int):
                return hi_t - a
            return S(self.ctx.define(f"(- {hi_t} {a.t})"), ty)
        if op == "Neg":
            if isinstance(a, int):
                return self.wrap(-a, ty)
            return self.wrap(S(self.ctx.define(f"(- {a.t})"), ty), ty)
        raise Untranslatable("unop " + op)

    # ---------------------------------------------------------------- places
    def resolve(self, fr, place, for_write=False):
        """-> (cell, path) of plain ('field', i)/('index', i) steps; window for slices"""
        cell, path, win = fr.cell(place.local), (), None
        for pj in place.proj:
            k = pj[0]
            if k == "deref":
                r = self.read_path(cell, path)
                if not isinstance(r, Ref):
                    raise Untranslatable(f"deref of non-reference {r!r}")
                cell, path, win = r.cell, r.path, r.win
            elif k == "field":
                path = path + (("field", pj[1], pj[2]),)
            elif k == "index":
                iv = self.force(fr.cell(pj[1]).v)
                if not isinstance(iv, int) or isinstance(iv, bool):
                    raise Untranslatable("symbolic array index")
                if win is not None:
                    if not (0 <= iv < win[1]):
                        raise Untranslatable("slice index out of window (panic path not modelled)")
                    iv += win[0]
                    win = None
                path = path + (("index", iv),)
            elif k == "cindex":
                iv = pj[1]
                if pj[3]:
                    n = win[1] if win is not None else pj[2]
                    iv = n - iv
                if win is not None:
                    iv += win[0]
                    win = None
                path = path + (("index", iv),)
            elif k == "downcast":
                path = path + (("downcast", pj[1]),)
            else:
                raise Untranslatable("projection " + k)
        return cell, path, win

    def read_path(self, cell, path):
        v = cell.v
        for st in path:
            v = self.project(v, st)
        return v

    def project(self, v, st):
        if v is None:
            raise Untranslatable("read of uninitialised place")
        if st[0] == "downcast":
            return v
        if isinstance(v, Opaque) and st[0] == "field":
            # newtype wrapper around an abstract value (Fp(blst_fp)): identity
            return v
        if not isinstance(v, Agg):
            raise Untranslatable(f"projection {st} on {v!r}")
        i = st[1]
        if i not in v.f:
            if v.lazy is None:
                raise Untranslatable(f"field {i} of {v!r} not initialised")
            v.f[i] = v.lazy(i, st[2] if st[0] == "field" else None)
        return v.f[i]

    def read(self, fr, place):
        cell, path, win = self.resolve(fr, place)
        v = self.read_path(cell, path)
        if win is not None:
            raise Untranslatable("by-value read of an unsized slice")
        return v

    def write(self, fr, place, val):
        cell, path, win = self.resolve(fr, place, True)
        self.write_path(cell, path, val)

    def write_path(self, cell, path, val):
        if not path:
            cell.v = val
            return
        v = cell.v
        if v is None:
            v = cell.v = Agg({}, None)
        for st in path[:-1]:
            if st[0] == "downcast":
                continue
            nxt = v.f.get(st[1]) if isinstance(v, Agg) else None
            if nxt is None:
                if isinstance(v, Agg) and v.lazy is not None:
                    nxt = v.f[st[1]] = v.lazy(st[1], st[2] if st[0] == "field" else None)
                else:
                    nxt = Agg({}, None)
                    v.f[st[1]] = nxt
            v = nxt
        last = path[-1]
        if last[0] == "downcast":
            raise Untranslatable("write through downcast")
        if not isinstance(v, Agg):
            if isinstance(v, Opaque):
                raise Untranslatable("field write into an abstract value")
            raise Untranslatable(f"write into {v!r}")
        v.f[last[1]] = val

    def copyval(self, v):
        """by-value copy of aggregates (Rust moves/copies): share immutable scalars, clone containers"""
        if isinstance(v, Agg):
            n = Agg({k: self.copyval(x) for k, x in v.f.items()}, v.ty, v.variant, None)
            if v.lazy is not None:
                # materialise lazily-created fields in the ORIGINAL on demand so both copies agree
                src = v

                def lazy(i, ty, src=src, n=n):
                    if i not in src.f:
                        src.f[i] = src.lazy(i, ty)
                    return self.copyval(src.f[i])
                n.lazy = lazy
            return n
        return v

    # ---------------------------------------------------------------- operands / rvalues
    def operand(self, fr, op, want_ty=None):
        if op.kind in ("copy", "move"):
            v = self.read(fr, op.place)
            return self.copyval(v)
        return self.const(fr, op.const, want_ty)

    def const(self, fr, c, want_ty=None):
        if c.kind == "int":
            return c.value
        if c.kind == "bool":
            return c.value
        if c.kind == "unit":
            return UNIT
        if c.kind == "str":
            return Agg({"str": c.value}, "&str")
        if c.kind == "named":
            return self.named_const(fr, c.value, want_ty)
        raise Untranslatable("constant " + c.text)

    def named_const(self, fr, path, want_ty=None):
        it = self.resolve_const(fr, path, want_ty)
        key = id(it)
        if key in self.const_cache:
            return self.copyval(self.const_cache[key])
        if it.value_text is not None:
            v = self.const(fr, mp.parse_const(it.value_text), it.ret)
        else:
            if it.unparsed:
                raise Untranslatable(f"const body {it.path}: {it.unparsed}")
            sub = Interp(self.P, Ctx(), self.handlers, self.opaque_types)
            sub.const_cache = self.const_cache
            v = sub.run_item(it, [])
            if sub.ctx.vars:
                raise Untranslatable("const body produced symbolic values: " + it.path)
        if it.ret is not None and it.ret.kind == "ref" and not isinstance(v, Ref):
            v = Ref(Cell(v))
        self.const_cache[key] = v
        return self.copyval(v)

    def resolve_const(self, fr, path, want_ty=None):
        P = self.P
        m = re.search(r"::promoted\[(\d+)\]$", path)
        if m:
            p = fr.item.path + f"::promoted[{m.group(1)}]"
            c = [it for it in P.by_path.get(p, []) if it.kind == "promoted"]
            if len(c) > 1:
                # macro-generated impls share one printed path: the promoteds of a body follow it in the dump
                after = [it for it in c if it.lines[0] > fr.item.lines[0]]
                if after:
                    c = [min(after, key=lambda it: it.lines[0])]
            if c:
                return c[0]
            raise Untranslatable("promoted not found: " + p)
        c = [it for it in P.by_path.get(path, []) if it.kind in ("const", "static")]
        if len(c) >= 1:
            return c[0]
        # associated constant:  mod::Type::NAME   or   <mod::Type as Trait>::NAME
        m = re.match(r"^<(.*?) as .*>::([A-Za-z_0-9]+)$", path)
        if m:
            tyname, name = m.group(1), m.group(2)
        else:
            if "::" not in path:
                raise Untranslatable("constant? " + path)
            tyname, name = path.rsplit("::", 1)
        tyname = re.sub(r"^&(mut )?", "", tyname)
        tyname = re.sub(r"::<.*>$", "", tyname)
        if "::" not in tyname:
            raise Untranslatable("constant of foreign type " + path)
        mod = tyname.rsplit("::", 1)[0]
        rx = re.compile("^" + re.escape(mod) + r"::<impl at [^>]*>::" + re.escape(name) + "$")
        cands = [it for it in P.items if it.kind in ("const", "static") and rx.match(it.path)]
        if want_ty is not None and len(cands) > 1:
            w = want_ty.s if hasattr(want_ty, "s") else str(want_ty)
            c2 = [it for it in cands if it.ret is not None and it.ret.s == w]
            if c2:
                cands = c2
        if len(cands) > 1:
            # same constant printed twice (e.g. trait + inherent) with equal bodies? accept if types agree and
            # prefer the one whose type is the Self type
            c2 = [it for it in cands if it.ret is not None and it.ret.s == tyname]
            if len(c2) >= 1:
                cands = c2[:1] if len({x.header.split(" = ")[0].split(">::")[-1] for x in c2}) == 1 else c2
        if len(cands) != 1:
            raise Untranslatable(f"constant {path}: {len(cands)} candidates")
        return cands[0]

    def rvalue(self, fr, rv, dest_ty):
        k = rv.kind
        if k == "use":
            return self.operand(fr, rv.a, dest_ty)
        if k == "ref":
            cell, path, win = self.resolve(fr, rv.a)
            return Ref(cell, path, win)
        if k == "binop":
            ty = self.operand_ty(fr, rv.a) or self.operand_ty(fr, rv.b)
            a = self.operand(fr, rv.a)
            b = self.operand(fr, rv.b)
            if rv.op in ("Shl", "Shr", "ShlUnchecked", "ShrUnchecked"):
                ty = self.operand_ty(fr, rv.a) or (dest_ty.name if dest_ty and dest_ty.kind == "int" else None)
            if ty is None and dest_ty is not None and dest_ty.kind == "int":
                ty = dest_ty.name
            if ty is None:
                ty = "bool"
            return self.binop(rv.op, a, b, ty)
        if k == "unop":
            ty = self.operand_ty(fr, rv.a) or (dest_ty.name if dest_ty is not None and dest_ty.kind == "int" else "bool")
            return self.unop(rv.op, self.operand(fr, rv.a), ty)
        if k == "cast":
            if rv.op != "IntToInt":
                if rv.op.startswith("PointerCoercion(Unsize"):
                    v = self.operand(fr, rv.a)
                    if isinstance(v, Ref):
                        tgt = self.read_path(v.cell, v.path)
                        if isinstance(tgt, Agg) and v.win is None:
                            n = self.agg_len(tgt)
                            return Ref(v.cell, v.path, (0, n))
                    raise Untranslatable("unsize of " + repr(v))
                if rv.op == "Transmute" or rv.op.startswith("PtrToPtr"):
                    raise Untranslatable("cast " + rv.op)
                raise Untranslatable("cast " + rv.op)
            src = self.operand_ty(fr, rv.a)
            v = self.operand(fr, rv.a)
            dst = parse_ty(rv.ty)
            if dst.kind != "int":
                raise Untranslatable("IntToInt to " + rv.ty)
            return self.cast_int(v, src or "bool", dst.name)
        if k == "array":
            return Agg({i: self.operand(fr, o) for i, o in enumerate(rv.fields)}, dest_ty.s if dest_ty else None)
        if k == "repeat":
            v = self.operand(fr, rv.a)
            return Agg({i: self.copyval(v) for i in range(rv.op)}, dest_ty.s if dest_ty else None)
        if k == "tuple":
            return Agg({i: self.operand(fr, o) for i, o in enumerate(rv.fields)}, dest_ty.s if dest_ty else None)
        if k == "adt":
            name = rv.name
            base = re.sub(r"::<.*?>(?=::|$)", "", name)
            vals = [self.operand(fr, o) for _, o in rv.fields]
            if rv.op == "unit":
                return Agg({}, base, variant=base.rsplit("::", 1)[-1])
            if base in self.opaque_types or (dest_ty is not None and dest_ty.s in self.opaque_types):
                if len(vals) == 1 and isinstance(vals[0], Opaque):
                    return Opaque(vals[0].t, dest_ty.s if dest_ty else base)
            variant = None
            if dest_ty is not None and dest_ty.kind == "adt" and not dest_ty.s.startswith(base):
                variant = base.rsplit("::", 1)[-1]
            if rv.op == "struct":
                # field order = declaration order as printed; struct literal lists fields by name in decl order
                a = Agg({i: v for i, v in enumerate(vals)}, base, variant)
                return a
            return Agg({i: v for i, v in enumerate(vals)}, base, variant)
        if k == "len":
            v = self.read(fr, rv.a)
            return self.agg_len(v)
        if k == "discriminant":
            v = self.read(fr, rv.a)
            if isinstance(v, Agg) and v.variant is not None:
                d = DISCR.get(v.variant)
                if d is not None:
                    return d
            raise Untranslatable("discriminant of " + repr(v))
        raise Untranslatable("rvalue " + rv.text[:80])

    def agg_len(self, v):
        if isinstance(v, Agg):
            if v.f and all(isinstance(i, int) for i in v.f):
                return max(v.f) + 1
            m = re.match(r"^\[.*; (\d+)\]$", v.ty or "")
            if m:
                return int(m.group(1))
        raise Untranslatable("Len of " + repr(v))

    def operand_ty(self, fr, op):
        """type name of an integer/bool operand, or None"""
        if op.kind == "const":
            return op.const.ty if op.const.kind in ("int", "bool") else None
        t = self.place_ty(fr, op.place)
        if t is None:
            return None
        if t.kind == "int":
            return t.name
        if t.kind == "bool":
            return "bool"
        return None

    def place_ty(self, fr, place):
        t = fr.item.locals.get(place.local)
        for pj in place.proj:
            if t is None:
                return None
            if pj[0] == "deref":
                t = t.args[0] if t.kind in ("ref", "ptr") else None
            elif pj[0] == "field":
                t = parse_ty(pj[2])
            elif pj[0] in ("index", "cindex"):
                t = t.args[0] if t.kind in ("array", "slice") else None
            elif pj[0] == "downcast":
                pass
            else:
                return None
        return t

    # ---------------------------------------------------------------- execution
    def run_item(self, it, args):
        if it.unparsed:
            raise Untranslatable(f"{it.path}: {it.unparsed}")
        if self.depth > 60:
            raise Untranslatable("call depth")
        fr = Frame(it)
        if len(args) != len(it.params):
            raise Untranslatable(f"arity {it.path}")
        for (l, t), a in zip(it.params, args):
            fr.cell(l).v = a
        self.depth += 1
        try:
            bb = 0
            visited = {}
            while True:
                self.steps += 1
                if self.steps > self.max_steps:
                    raise Untranslatable("step budget exhausted (loop?)")
                visited[bb] = visited.get(bb, 0) + 1
                blk = it.blocks.get(bb)
                if blk is None or blk.term is None:
                    raise Untranslatable(f"{it.path}: bb{bb} missing")
                for st in blk.stmts:
                    if st.kind == "assign":
                        dty = self.place_ty(fr, st.place)
                        v = self.rvalue(fr, st.rv, dty)
                        self.write(fr, st.place, v)
                    elif st.kind == "setdiscr":
                        raise Untranslatable("SetDiscriminant")
                t = blk.term
                if t.kind == "goto":
                    bb = t.target
                elif t.kind == "return":
                    return fr.cell(0).v if fr.cell(0).v is not None else UNIT
                elif t.kind == "drop":
                    bb = t.target
                elif t.kind == "assert":
                    cv = self.force(self.operand(fr, t.op))
                    self.do_assert(cv, t.negate, t.msg, f"{it.path} bb{bb}")
                    bb = t.target
                elif t.kind == "switch":
                    bb = self.do_switch(fr, t)
                elif t.kind == "call":
                    args2 = [self.operand(fr, a) for a in t.args]
                    arg_tys = [self.arg_ty(fr, a) for a in t.args]
                    dty = self.place_ty(fr, t.dest)
                    r = self.call(fr, t.func, args2, arg_tys, dty)
                    if t.target is None:
                        raise Untranslatable("diverging call " + t.func)
                    self.write(fr, t.dest, r)
                    bb = t.target
                elif t.kind == "unreachable":
                    raise Untranslatable("reached `unreachable`")
                else:
                    raise Untranslatable("terminator " + t.kind)
        finally:
            self.depth -= 1

    def arg_ty(self, fr, op):
        if op.kind == "const":
            if op.const.kind == "named":
                try:
                    it = self.resolve_const(fr, op.const.value)
                    return it.ret.s if it.ret is not None else None
                except Untranslatable:
                    return None
            return op.const.ty
        t = self.place_ty(fr, op.place)
        return t.s if t is not None else None

    def do_assert(self, cv, negate, msg, where):
        c = self.ctx
        if isinstance(cv, bool):
            ok = (not cv) if negate else cv
            if ok:
                c.folded_asserts += 1
            if not ok:
                # definitely panics on this path
                c.panics.append((list(c.pathcond), "true", msg, where))
                raise Untranslatable(f"assert fails unconditionally at {where}: {msg}")
            return
        if not isinstance(cv, B):
            raise Untranslatable("assert on non-bool")
        good = f"(not {cv.t})" if negate else cv.t
        bad = cv.t if negate else f"(not {cv.t})"
        c.panics.append((list(c.pathcond), bad, msg, where))
        c.pathcond.append(good)
        if negate:
            c.asserted_false.add(cv.t)

    def do_switch(self, fr, t):
        v = self.force(self.operand(fr, t.op))
        if isinstance(v, bool):
            v = int(v)
        if isinstance(v, int):
            for val, tgt in t.cases:
                if val == v:
                    return tgt
            if t.otherwise is None:
                raise Untranslatable("switch without otherwise")
            return t.otherwise
        # symbolic: fork via decision list
        alts = []
        if isinstance(v, B):
            for val, tgt in t.cases:
                alts.append((v.t if val else f"(not {v.t})", tgt))
            if t.otherwise is not None:
                seen = {val for val, _ in t.cases}
                if seen == {0}:
                    alts.append((v.t, t.otherwise))
                elif seen == {1}:
                    alts.append((f"(not {v.t})", t.otherwise))
        else:
            for val, tgt in t.cases:
                alts.append((f"(= {v.t} {I(val)})", tgt))
            if t.otherwise is not None:
                alts.append(("(and " + " ".join(f"(not (= {v.t} {I(val)}))" for val, _ in t.cases) + ")"
                             if len(t.cases) > 1 else f"(not (= {v.t} {I(t.cases[0][0])}))", t.otherwise))
        idx = len(self.taken)
        choice = self.decisions[idx] if idx < len(self.decisions) else 0
        self.taken.append((len(alts), choice))
        cond, tgt = alts[choice]
        self.ctx.pathcond.append(cond)
        return tgt

    # ---------------------------------------------------------------- calls
    def call(self, fr, func, args, arg_tys, dest_ty):
        for hook in self.pre_call_hooks:
            hook(self, func, args, arg_tys)
        for rx, h in self.handlers:
            m = rx.match(func)
            if m:
                r = h(self, fr, func, args, arg_tys, dest_ty, m)
                if r is not NotImplemented:
                    return r
        it = self.resolve_fn(func, arg_tys)
        r = self.run_item(it, args)
        self.call_log.append((it.path, args, r))
        return r

    def resolve_fn(self, func, arg_tys):
        P = self.P
        m = re.match(r"^<(.*) as (.*)>::([A-Za-z_0-9]+)(::<.*>)?$", func)
        if m:
            selfty, name = m.group(1), m.group(3)
        else:
            f2 = re.sub(r"::<[^:]*>$", "", func)
            if "::" not in f2:
                raise Untranslatable("call to " + func)
            selfty, name = f2.rsplit("::", 1)
        cands = [it for it in P.by_last.get(name, []) if not it.ctfe]
        # free function with exact path
        exact = [it for it in cands if it.path == func]
        if exact:
            cands = exact
        else:
            base = re.sub(r"^&(mut )?", "", selfty)
            base = re.sub(r"::<.*>$", "", base)
            if "::" not in base:
                raise Untranslatable("call to foreign function " + func)
            mod = base.rsplit("::", 1)[0]
            rx = re.compile("^" + re.escape(mod) + r"::<impl at [^>]*>::" + re.escape(name) + "$")
            c0 = cands
            cands = [it for it in cands if rx.match(it.path)]
            if not cands and not m:
                # nested items (fn inside a method): the `<impl at ..>` segment stands for the type segment
                f2 = re.sub(r"::<[^:]*>$", "", func)
                for it in c0:
                    pat = "^" + re.sub(r"<impl at [^>]*>", "@@", it.path)
                    pat = re.escape(pat[1:]).replace("@@", r"[A-Za-z_0-9]+") + "$"
                    if re.match(pat, f2):
                        cands.append(it)
        want = [mp.strip_lifetimes(t) if t else t for t in arg_tys]
        c2 = [it for it in cands if [t.s for _, t in it.params] == want]
        if len(c2) == 1:
            return c2[0]
        if len(c2) > 1:
            # identical signature in several impls of the same module (e.g. trait method + inherent method).
            # `mod::Type::name` syntax means an INHERENT method: pick the impl whose header (read from the
            # source span) has no ` for `;  `<T as Trait>::name` means the impl of that trait.
            c3 = [it for it in c2 if self.impl_is_trait(it) == bool(m)]
            if not c3:
                c3 = [it for it in c2 if self.impl_is_trait(it) is None]
            if m and len(c3) > 1:
                tr = re.sub(r"<.*$", "", m.group(2)).rsplit("::", 1)[-1]
                c4 = [it for it in c3 if re.search(r"\b" + re.escape(tr) + r"\b", self.impl_header(it) or "")]
                if c4:
                    c3 = c4
            if len(c3) == 1:
                return c3[0]
            raise Untranslatable(f"call {func}: ambiguous ({len(c2)} candidates)")
        if len(cands) == 1 and len(cands[0].params) == len(want):
            return cands[0]
        raise Untranslatable(f"call {func}{want}: no body ({len(cands)} candidates by name)")

    def impl_header(self, it):
        return self.P.impl_header(it)

    def impl_is_trait(self, it):
        return self.P.impl_is_trait(it)


DISCR = {"None": 0, "Some": 1, "Ok": 0, "Err": 1, "Less": -1, "Equal": 0, "Greater": 1}


# --------------------------------------------------------------------------------------------
# handlers for std / subtle functions (contracts of foreign code, listed in evidence)
# --------------------------------------------------------------------------------------------
def _h(rx):
    def deco(f):
        DEFAULT_HANDLERS.append((re.compile(rx), f))
        return f
    return deco


DEFAULT_HANDLERS = []
FOREIGN_CONTRACTS = [
    "core::num::<impl uN>::wrapping_{add,sub,mul}: result = exact op mod 2^N",
    "uN::from_le_bytes / to_le_bytes: little-endian base-256 digits",
    "<[T; N] as Index/IndexMut<Range>>::index: sub-slice view (constant bounds, in range)",
    "<&[T] as TryInto<[T; K]>>::try_into + Result::unwrap: copy of a K-element slice (length checked concretely)",
    "[T]::copy_from_slice: element-wise copy (lengths checked concretely)",
    "subtle::Choice::from(u8) wraps the byte; CtOption::new(v, c) pairs value and flag",
]


@_h(r"^core::num::<impl (u\d+|usize)>::wrapping_(add|sub|mul)$")
def h_wrapping(ip, fr, func, args, tys, dty, m):
    ty, op = m.group(1), m.group(2)
    a, b = ip.force(args[0]), ip.force(args[1])
    base = {"add": "Add", "sub": "Sub", "mul": "Mul"}[op]
    if isinstance(a, int) and isinstance(b, int):
        ex = a + b if op == "add" else a - b if op == "sub" else a * b
        return ip.wrap(ex, ty)
    ex = ip.arith(base, a, b, ty)
    r = ip.wrap_known(ex, ty, base, a, b)
    ip.ctx.notes.append(("wrapping_" + op, r, a, b))
    return r


@_h(r"^core::num::<impl (u\d+|usize)>::wrapping_neg$")
def h_wrapping_neg(ip, fr, func, args, tys, dty, m):
    """x.wrapping_neg() = 0.wrapping_sub(x): same wrap machinery as wrapping_sub"""
    ty = m.group(1)
    b = ip.force(args[0])
    if isinstance(b, int):
        return ip.wrap(0 - b, ty)
    ex = ip.arith("Sub", 0, b, ty)
    r = ip.wrap_known(ex, ty, "Sub", 0, b)
    ip.ctx.notes.append(("wrapping_neg", r, 0, b))
    return r


@_h(r"^core::num::<impl (u\d+|usize)>::from_le_bytes$")
def h_from_le(ip, fr, func, args, tys, dty, m):
    ty = m.group(1)
    arr = args[0]
    n = INT_TYPES[ty][0] // 8
    bs = [ip.force(ip.project(arr, ("index", i))) for i in range(n)]
    if all(isinstance(b, int) for b in bs):
        return sum(b << (8 * i) for i, b in enumerate(bs))
    return S(ip.ctx.define("(+ " + " ".join(f"(* {1 << (8 * i)} {ip.term(b)})" for i, b in enumerate(bs)) + ")"), ty)


@_h(r"^core::num::<impl (u\d+|usize)>::to_le_bytes$")
def h_to_le(ip, fr, func, args, tys, dty, m):
    ty = m.group(1)
    n = INT_TYPES[ty][0] // 8
    v = ip.force(args[0])
    if isinstance(v, int):
        return Agg({i: (v >> (8 * i)) & 255 for i in range(n)}, f"[u8; {n}]")
    bs = [ip.ctx.fresh(0, 255, "byte") for _ in range(n)]
    ip.ctx.fact(f"(= {v.t} (+ " + " ".join(f"(* {1 << (8 * i)} {b})" for i, b in enumerate(bs)) + "))")
    return Agg({i: S(b, "u8") for i, b in enumerate(bs)}, f"[u8; {n}]")


def _range_bounds(ip, rng, kind, n):
    if kind == "Range":
        a, b = ip.force(rng.f[0]), ip.force(rng.f[1])
    elif kind == "RangeTo":
        a, b = 0, ip.force(rng.f[0])
    elif kind == "RangeFrom":
        a, b = ip.force(rng.f[0]), n
    elif kind == "RangeFull":
        a, b = 0, n
    else:
        raise Untranslatable("range kind " + kind)
    if not (isinstance(a, int) and isinstance(b, int)):
        raise Untranslatable("symbolic slice bounds")
    if not (0 <= a <= b <= n):
        raise Untranslatable(f"slice [{a}..{b}] of length {n}: panics (not modelled)")
    return a, b


@_h(r"^<\[(.*?)(?:; (\d+))?\] as std::ops::Index(?:Mut)?<std::ops::(Range|RangeTo|RangeFrom|RangeFull)(?:<usize>)?>>::index(?:_mut)?$")
def h_index_range(ip, fr, func, args, tys, dty, m):
    r = args[0]
    if not isinstance(r, Ref):
        raise Untranslatable("index on non-ref")
    if r.win is not None:
        base, n = r.win
    else:
        base, n = 0, ip.agg_len(ip.read_path(r.cell, r.path))
    a, b = _range_bounds(ip, args[1], m.group(3), n)
    return Ref(r.cell, r.path, (base + a, b - a))


@_h(r"^<&(?:mut )?\[(.*?)\] as std::convert::TryInto<(&)?\[(.*?); (\d+)\]>>::try_into$")
def h_try_into(ip, fr, func, args, tys, dty, m):
    r = args[0]
    k = int(m.group(4))
    if not isinstance(r, Ref) or r.win is None:
        raise Untranslatable("try_into on " + repr(r))
    if r.win[1] != k:
        return Agg({}, "Result", variant="Err")
    arr = ip.read_path(r.cell, r.path)
    if m.group(2):
        if r.win[0] == 0 and ip.agg_len(arr) == k:
            return Agg({0: Ref(r.cell, r.path)}, "Result", variant="Ok")
        raise Untranslatable("try_into &[T;K] of a proper sub-slice")
    out = Agg({i: ip.copyval(ip.project(arr, ("index", r.win[0] + i))) for i in range(k)}, f"[{m.group(3)}; {k}]")
    return Agg({0: out}, "Result", variant="Ok")


@_h(r"^std::result::Result::<.*>::unwrap$|^std::option::Option::<.*>::unwrap$")
def h_unwrap(ip, fr, func, args, tys, dty, m):
    v = args[0]
    if isinstance(v, Agg) and v.variant in ("Ok", "Some"):
        return v.f[0]
    if isinstance(v, Agg) and v.variant in ("Err", "None"):
        raise Untranslatable("unwrap on Err/None: panics unconditionally")
    raise Untranslatable("unwrap of " + repr(v))


@_h(r"^core::slice::<impl \[(.*?)\]>::copy_from_slice$")
def h_copy_from_slice(ip, fr, func, args, tys, dty, m):
    d, s = args
    if not (isinstance(d, Ref) and isinstance(s, Ref)):
        raise Untranslatable("copy_from_slice args")

    def window(r):
        if r.win is not None:
            return r.win
        return (0, ip.agg_len(ip.read_path(r.cell, r.path)))
    dw, sw = window(d), window(s)
    if dw[1] != sw[1]:
        raise Untranslatable("copy_from_slice length mismatch: panics")
    src = ip.read_path(s.cell, s.path)
    vals = [ip.copyval(ip.project(src, ("index", sw[0] + i))) for i in range(sw[1])]
    for i, v in enumerate(vals):
        ip.write_path(d.cell, d.path + (("index", dw[0] + i),), v)
    return UNIT


@_h(r"^<subtle::Choice as std::convert::From<u8>>::from$")
def h_choice_from(ip, fr, func, args, tys, dty, m):
    return Agg({0: args[0]}, "subtle::Choice")


@_h(r"^subtle::Choice::unwrap_u8$")
def h_choice_unwrap(ip, fr, func, args, tys, dty, m):
    c = args[0]
    if isinstance(c, Ref):
        c = ip.read_path(c.cell, c.path)
    return c.f[0]


@_h(r"^subtle::CtOption::<(.*)>::new$")
def h_ctoption_new(ip, fr, func, args, tys, dty, m):
    return Agg({0: args[0], 1: args[1]}, "subtle::CtOption")


def choice_bit(ip, c):
    """Choice -> value of its byte"""
    if isinstance(c, Ref):
        c = ip.read_path(c.cell, c.path)
    return ip.force(c.f[0])


def mk_choice(v):
    return Agg({0: v}, "subtle::Choice")


@_h(r"^<subtle::Choice as std::ops::(BitAnd|BitOr|BitXor)>::(bitand|bitor|bitxor)$")
def h_choice_bin(ip, fr, func, args, tys, dty, m):
    a, b = choice_bit(ip, args[0]), choice_bit(ip, args[1])
    return mk_choice(ip.binop(m.group(1), a, b, "u8"))


@_h(r"^<subtle::Choice as std::ops::Not>::not$")
def h_choice_not(ip, fr, func, args, tys, dty, m):
    a = choice_bit(ip, args[0])
    if isinstance(a, int):
        return mk_choice(1 - a if a in (0, 1) else (~a) & 1)
    # subtle: Choice(1u8 & (!self.0));  for a in {0,1}: 1 - a
    r = ip.ctx.fresh(0, 1, "not")
    ip.ctx.fact(f"(=> (= {a.t} 0) (= {r} 1))")
    ip.ctx.fact(f"(=> (= {a.t} 1) (= {r} 0))")
    return mk_choice(S(r, "u8", ub=2))


@_h(r"^<bool as std::convert::From<subtle::Choice>>::from$")
def h_bool_from_choice(ip, fr, func, args, tys, dty, m):
    a = choice_bit(ip, args[0])
    if isinstance(a, int):
        return a != 0
    return B(ip.ctx.define(f"(not (= {a.t} 0))", "c", "Bool"))


@_h(r"^<(u8|u16|u32|u64|usize) as subtle::ConstantTimeEq>::ct_eq$")
def h_ct_eq_int(ip, fr, func, args, tys, dty, m):
    def val(x):
        if isinstance(x, Ref):
            x = ip.read_path(x.cell, x.path)
        return ip.force(x)
    a, b = val(args[0]), val(args[1])
    if isinstance(a, int) and isinstance(b, int):
        return mk_choice(int(a == b))
    return mk_choice(S(ip.ctx.define(f"(ite (= {ip.term(a)} {ip.term(b)}) 1 0)"), "u8", ub=2))


@_h(r"^<(u8|u16|u32|u64|usize) as subtle::ConditionallySelectable>::conditional_select$")
def h_cond_select_int(ip, fr, func, args, tys, dty, m):
    def val(x):
        if isinstance(x, Ref):
            x = ip.read_path(x.cell, x.path)
        return ip.force(x)
    a, b, c = val(args[0]), val(args[1]), choice_bit(ip, args[2])
    if isinstance(c, int):
        return b if c else a
    return S(ip.ctx.define(f"(ite (= {c.t} 0) {ip.term(a)} {ip.term(b)})"), m.group(1))


@_h(r"^<std::ops::Range<(usize|u32|u64|i32)> as std::iter::IntoIterator>::into_iter$")
def h_range_into_iter(ip, fr, func, args, tys, dty, m):
    return args[0]


@_h(r"^<std::ops::Range<(usize|u32|u64|i32)> as std::iter::Iterator>::next$")
def h_range_next(ip, fr, func, args, tys, dty, m):
    r = args[0]
    if not isinstance(r, Ref):
        raise Untranslatable("Range::next on non-ref")
    rng = ip.read_path(r.cell, r.path)
    a, b = ip.force(rng.f[0]), ip.force(rng.f[1])
    if not (isinstance(a, int) and isinstance(b, int)):
        raise Untranslatable("loop over a symbolic range")
    if a < b:
        rng.f[0] = a + 1
        return Agg({0: a}, "Option", variant="Some")
    return Agg({}, "Option", variant="None")


# --------------------------------------------------------------------------------------------
# symbolic inputs
# --------------------------------------------------------------------------------------------
def sym_value(ip, ty, hint="in", names=None):
    """fresh symbolic value of MIR type `ty` (Ty). ADTs materialise lazily through field projections."""
    c = ip.ctx
    if ty.kind == "int":
        lo, hi = ty_range(ty.name)
        nm = c.fresh(lo, hi, hint)
        if names is not None:
            names.append(nm)
        return S(nm, ty.name)
    if ty.kind == "bool":
        nm = c.fresh_bool(hint)
        if names is not None:
            names.append(nm)
        return B(nm)
    if ty.kind == "array":
        if ty.n is None:
            raise Untranslatable("array of unknown length " + ty.s)
        return Agg({i: sym_value(ip, ty.args[0], f"{hint}_{i}", names) for i in range(ty.n)}, ty.s)
    if ty.kind == "tuple":
        return Agg({i: sym_value(ip, t, f"{hint}_{i}", names) for i, t in enumerate(ty.args)}, ty.s)
    if ty.kind == "ref":
        return Ref(Cell(sym_value(ip, ty.args[0], hint, names)))
    if ty.kind == "unit":
        return UNIT
    if ty.kind == "adt":
        if ty.s in ip.opaque_types:
            nm = c.fresh_opaque(ty.s, hint) if hasattr(c, "fresh_opaque") else None
            if nm is None:
                raise Untranslatable("opaque type without factory " + ty.s)
            if names is not None:
                names.append(nm)
            return Opaque(nm, ty.s)
        a = Agg({}, ty.s)

        def lazy(i, fty, a=a):
            if fty is None:
                raise Untranslatable("lazy field without type")
            return sym_value(ip, parse_ty(fty), f"{hint}_{i}", names)
        a.lazy = lazy
        return a
    raise Untranslatable("symbolic value of type " + ty.s)


def limbs_of(ip, v, n=None, field_ty=None):
    """[u64; n] array value (or newtype around it) -> list of limb values"""
    if isinstance(v, Ref):
        v = ip.read_path(v.cell, v.path)
    if isinstance(v, Agg) and v.ty is not None and not v.ty.startswith("["):
        # newtype struct: field 0
        inner = ip.project(v, ("field", 0, field_ty or f"[u64; {n}]"))
        return limbs_of(ip, inner, n)
    if not isinstance(v, Agg):
        raise Untranslatable("limbs of " + repr(v))
    k = n if n is not None else ip.agg_len(v)
    return [ip.force(ip.project(v, ("index", i))) for i in range(k)]


def int_of_limbs(ip, limbs, bits=64):
    if all(isinstance(x, int) for x in limbs):
        return sum(x << (bits * i) for i, x in enumerate(limbs))
    return "(+ " + " ".join(f"(* {1 << (bits * i)} {ip.term(x)})" if i else ip.term(x) for i, x in enumerate(limbs)) + " 0)"


# --------------------------------------------------------------------------------------------
# path enumeration
# --------------------------------------------------------------------------------------------
def explore(prog, build, max_paths=16, **kw):
    """build(ip) -> result; re-executed once per path (decision prefix). yields (ip, result)."""
    todo = [[]]
    out = []
    while todo:
        dec = todo.pop()
        ip = Interp(prog, Ctx(kw.get("product", "nonlinear")), kw.get("handlers"), kw.get("opaque_types", ()),
                    decisions=dec)
        if kw.get("ctx_init"):
            kw["ctx_init"](ip)
        res = build(ip)
        out.append((ip, res))
        if len(out) > max_paths:
            raise Untranslatable("too many paths")
        for i in range(len(dec), len(ip.taken)):
            nalt, ch = ip.taken[i]
            for alt in range(ch + 1, nalt):
                todo.append([t[1] for t in ip.taken[:i]] + [alt])
    return out


def havoc_leaves(ip, v, hint="cut"):
    """replace every integer leaf reachable from v (through refs / aggregates) by a fresh variable of the
    same type; records (fresh, original) in ip.havoc_pairs. Returns the (possibly new) value."""
    if isinstance(v, Ref):
        tgt = ip.read_path(v.cell, v.path)
        new = havoc_leaves(ip, tgt, hint)
        if new is not tgt:
            ip.write_path(v.cell, v.path, new)
        return v
    v = ip.force(v)
    if getattr(ip.ctx, "cut_at", None) is None:
        ip.ctx.cut_at = len(ip.ctx.decl)          # everything before this index is the prefix of the cut
        ip.ctx.cut_path = list(ip.ctx.pathcond)
    if isinstance(v, S):
        lo, hi = ty_range(v.ty)
        w = S(ip.ctx.fresh(lo, hi, hint), v.ty)
        ip.havoc_pairs.append((w, v))
        return w
    if isinstance(v, bool):
        return v
    if isinstance(v, int):
        w = S(ip.ctx.fresh(0, (1 << 64) - 1, hint), "u64")
        ip.havoc_pairs.append((w, v))
        return w
    if isinstance(v, Agg):
        for k in sorted(v.f):
            v.f[k] = havoc_leaves(ip, v.f[k], hint)
        return v
    raise Untranslatable("havoc of " + repr(v))
