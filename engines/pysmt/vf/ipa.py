"""Helpers of C20_S (inner-product argument): Laurent normaliser on top of vf/symf.py, the `sx ipa` driver, the
textbook check equation written from the paper's definition, ground SMT emitters.

What is decided how
* `sx ipa` runs the repository's `ipa_prove` / `ipa_verify` (source file compiled by build.rs from core.REPO on
  every run) on SymF scalars, SymG group elements (discrete logarithms) and the real CircuitTranscript over
  SymHash. The verifier's decision is ONE identity test; sx reports the tested term.
* That term is normalised with the existing normaliser (symf.Dag.normal) over `LaurentRing`: the only inverses the
  code takes are of challenge variables (path conditions `nz chi`), so the canonical form lives in
  F_p[w, g, h, ...][chi^+-1] with integer (possibly negative) exponents. An identity of canonical forms is an
  identity for ALL values that satisfy the recorded path conditions. Inverses of anything but a monomial would
  become opaque atoms (none occurs; their presence makes the obligation INCONCLUSIVE).
* The residual ground statement over the coefficients (all zero / some non-zero mod p) goes to the portfolio
  z3-new || cvc5, with a perturbed twin that must be sat.
"""
import glob, hashlib, os, random

from . import core, solvers, symf
from .symf import P
from .solvers import I


# ------------------------------------------------------------------ Laurent ring
def lmono_mul(a, b):
    """product of monomials with integer exponents; zero exponents are dropped"""
    if not a:
        return b
    if not b:
        return a
    out, i, j = [], 0, 0
    while i < len(a) and j < len(b):
        if a[i][0] == b[j][0]:
            e = a[i][1] + b[j][1]
            if e:
                out.append((a[i][0], e))
            i += 1
            j += 1
        elif a[i][0] < b[j][0]:
            out.append(a[i])
            i += 1
        else:
            out.append(b[j])
            j += 1
    out.extend(a[i:])
    out.extend(b[j:])
    return tuple(out)


class LaurentRing(symf.Ring):
    """F_p[vars] with Laurent monomials: the inverse of a single monomial c*m is c^-1 * m^-1. The variables that
    get inverted are collected in `inverted` (the part checks that each carries a recorded `nz` path condition)."""

    def __init__(self):
        super().__init__(None, None)
        self.inverted = set()

    def mul(self, a, b):
        if not a or not b:
            return {}
        if len(a) < len(b):
            a, b = b, a
        out = {}
        get = out.get
        for mb, cb in b.items():
            for ma, ca in a.items():
                m = lmono_mul(ma, mb)
                out[m] = get(m, 0) + ca * cb
        return {m: c % P for m, c in out.items() if c % P}

    def inv(self, a):
        if not a:
            raise ZeroDivisionError("inverse of the zero polynomial")
        if len(a) == 1:
            (m, c), = a.items()
            for v, e in m:
                self.inverted.add(self.names[v])
            return {tuple((v, -e) for v, e in m): pow(c, P - 2, P)}
        return super().inv(a)       # opaque atom

    def show(self, a, limit=6):
        out = []
        for m, c in sorted(a.items())[:limit]:
            out.append(f"{c if c < P // 2 else -(P - c)}" + "".join(f"*{self.names[v]}^{e}" for v, e in m))
        return " + ".join(out) + (" + ..." if len(a) > limit else "") if a else "0"


def occurs(a, v):
    """sub-polynomial of the monomials of `a` that contain variable index v, and the max |exponent|"""
    sub, deg = {}, 0
    for m, c in a.items():
        for vv, e in m:
            if vv == v:
                sub[m] = c
                deg = max(deg, abs(e))
    return sub, deg


# ------------------------------------------------------------------ sx driver
def run_ipa(n, proof="honest", res="honest", impl="shim", tamper=None, vals=None, idanswer=0, timeout=300):
    kw = dict(n=n, proof=proof, res=res, impl=impl, idanswer=idanswer)
    if tamper:
        kw["tamper"] = tamper
    if vals is not None:
        kw["vals"] = vals
    return symf.sx("ipa", timeout=timeout, **kw)


def run_native(n, seed=1, tamper=(), wrong=0, pad=0):
    """real stack; pad=m: the last m entries are (scalar 0, identity, identity) as light_aggregator pads them"""
    kw = dict(mode="native", n=n, seed=seed, wrong=wrong, pad=pad)
    if tamper:
        kw["tamper"] = list(tamper)
    return symf.sx("ipa", **kw)


def targets(n):
    k = n.bit_length() - 1
    return (["res1", "res2", "s"] + [f"L{j}" for j in range(k)] + [f"R{j}" for j in range(k)]
            + [f"b1_{i}" for i in range(n)] + [f"b2_{i}" for i in range(n)])


class IpaRun:
    """One `sx ipa` run (symbolic or concrete)."""

    def __init__(self, d):
        self.d = d
        self.n, self.k = d["n"], d["k"]
        self.dag = symf.Dag(d["arena"])
        self.concrete = d["arena"].get("concrete", False)
        self.ring = LaurentRing()
        self.memo = {}
        self.log = d["world"]["log"]
        self.vlog = [e for e in self.log if e["side"] == "V"]

    # ---- what happened
    def prover_ok(self):
        return self.d["proof"] != "honest" or self.d.get("prover", {}).get("result") == "Ok"

    def verifier_result(self):
        return self.d.get("verifier", {}).get("result", "not run")

    def verifier_tests(self):
        return [t for t in self.d.get("idtests", []) if t["side"] == "V"]

    def consumed_all(self):
        v = self.d.get("verifier", {})
        return v.get("consumed_records") == v.get("proof_records") == 2 * self.k + 1 and v.get("trailing_ok")

    def problems(self):
        """why the run does not have the expected shape (empty list = one identity test decided the verifier)"""
        out = []
        if not self.prover_ok():
            out.append(f"prover: {self.d.get('prover', {}).get('result')}")
            return out
        vr = self.verifier_result()
        if vr.startswith("panic") or vr == "not run":
            out.append(f"verifier: {vr}")
            return out
        if vr not in ("Ok", "Err(Opening)"):
            out.append(f"verifier: {vr}")
        if len(self.verifier_tests()) != 1:
            out.append(f"{len(self.verifier_tests())} identity tests on the verifier side (expected 1)")
        if not self.consumed_all():
            out.append(f"verifier consumed {self.d['verifier'].get('consumed_records')} of {self.d['verifier'].get('proof_records')} records "
                       f"(expected {2 * self.k + 1})")
        return out

    def path_report(self):
        """(names of variables with an nz condition, list of path conditions that are neither `nz var` nor the
        verifier's own identity test)"""
        nz, other = [], []
        tested = {t["term"] for t in self.d.get("idtests", [])}
        for p in self.dag.path:
            if p[0] == "nz" and self.dag.var_name(p[1]):
                nz.append(self.dag.var_name(p[1]))
            elif p[0] == "ne" and (p[1] in tested or p[2] in tested) and 0 in (self.dag.const(p[1]), self.dag.const(p[2])):
                continue
            else:
                other.append(p)
        return nz, other

    # ---- terms
    def nf(self, t):
        return self.dag.normal(self.ring, t, self.memo)

    def decided(self):
        return self.nf(self.verifier_tests()[0]["term"])

    def decided_value(self):
        """concrete runs: value of the tested element (None when the verifier made no identity test)"""
        t = self.verifier_tests()
        return self.dag.const(t[0]["term"]) if t else None

    def squeezes(self, side="V"):
        return [e["item"] for e in self.log if e["side"] == side and e["op"] == "squeeze"]

    def reads(self):
        return [e["item"] for e in self.vlog if e["op"] == "read"]

    def symbols(self):
        """normal forms of the verifier's view: r, u_j, B1, B2, R1, R2, L_j, R_j, s — taken from the run's own
        records (inputs given to the verifier, elements it read, challenges it squeezed)"""
        sq = self.squeezes("V")
        rd = self.reads()
        k = self.k
        if len(sq) != k + 1 or len(rd) != 2 * k + 1:
            raise ValueError(f"verifier squeezed {len(sq)} challenges and read {len(rd)} elements (expected {k + 1}, {2 * k + 1})")
        kinds = [x[0] for x in rd]
        if kinds != ["g"] * (2 * k) + ["f"]:
            raise ValueError(f"verifier read kinds {kinds}")
        return dict(r=self.nf(sq[0]["term"]), u=[self.nf(x["term"]) for x in sq[1:]],
                    B1=[self.nf(t) for t in self.d["b1"]], B2=[self.nf(t) for t in self.d["b2"]],
                    R1=self.nf(self.d["res1"]), R2=self.nf(self.d["res2"]),
                    L=[self.nf(rd[2 * j][1]) for j in range(k)], R=[self.nf(rd[2 * j + 1][1]) for j in range(k)],
                    s=self.nf(rd[2 * k][1]))

    def validate_normaliser(self, seed):
        """translator validation: DAG value == normal-form value at a pseudo-random point"""
        rnd = random.Random(seed)
        t = self.verifier_tests()[0]["term"]
        nfm = self.decided()
        names = self.dag.support(t, {})
        env = {nm: rnd.randrange(1, P) for nm in names}
        val = {self.ring.var_index(nm): v for nm, v in env.items()}
        a = self.dag.evaluate(t, env, {})
        b = self.ring.evaluate(nfm, val)
        return a == b


# ------------------------------------------------------------------ specification (paper)
def textbook(ring, n, sym):
    """RHS - LHS of the check equation of the modified inner-product argument, eprint 2019/1021 section 3.1 (the
    description the file header cites), specialised to the relation of the file header (no blinding, no second
    vector), written from the definition and NOT from the code:

      statement    P = res1 + [r] res2,  G_i = bases1[i] + [r] bases2[i]   (r: batching challenge)
      round j = 0..k-1 (challenge u_j after L_j, R_j), halving:  G' = [u_j^-1] G_lo + [u_j] G_hi
      after k rounds G has one element  G_fin = sum_i s_i G_i  with  (s_i)_i the coefficients of
            g(X) = prod_{j} (u_j^-1 + u_j X^(2^(k-1-j)))         (round 0 acts on the top bit of the index)
      check        [a] G_fin  =  P + sum_j ( [u_j^2] L_j + [u_j^-2] R_j )      with a = the proof's scalar.
    """
    k = n.bit_length() - 1
    add, mul, inv, neg = ring.add, ring.mul, ring.inv, ring.neg
    r, u = sym["r"], sym["u"]
    uinv = [inv(x) for x in u]
    # coefficients of g(X), by multiplying the k binomials out (dense list indexed by the power of X)
    coeffs = [ring.const(1)]
    for j in range(k):
        step = 1 << (k - 1 - j)
        new = [{} for _ in range(len(coeffs) + step)]
        for e, c in enumerate(coeffs):
            new[e] = add(new[e], mul(c, uinv[j]))
            new[e + step] = add(new[e + step], mul(c, u[j]))
        coeffs = new
    assert len(coeffs) == n
    gfin = {}
    for i in range(n):
        gi = add(sym["B1"][i], mul(r, sym["B2"][i]))
        gfin = add(gfin, mul(coeffs[i], gi))
    lhs = mul(sym["s"], gfin)
    rhs = add(sym["R1"], mul(r, sym["R2"]))
    for j in range(k):
        rhs = add(rhs, mul(mul(u[j], u[j]), sym["L"][j]))
        rhs = add(rhs, mul(mul(uinv[j], uinv[j]), sym["R"][j]))
    return add(rhs, neg(lhs))


def claimed_value_spec(ring, run, sym):
    """(R1 - <w, bases1>) + r (R2 - <w, bases2>)"""
    w = [run.nf(t) for t in run.d["w"]]
    acc1, acc2 = sym["R1"], sym["R2"]
    for i in range(run.n):
        acc1 = ring.add(acc1, ring.neg(ring.mul(w[i], sym["B1"][i])))
        acc2 = ring.add(acc2, ring.neg(ring.mul(w[i], sym["B2"][i])))
    return ring.add(acc1, ring.mul(sym["r"], acc2))


# ------------------------------------------------------------------ ground SMT
def nonzero_smt(coeffs):
    """'every coefficient is 0 mod p' (unsat <=> the polynomial is not the zero polynomial)"""
    lines = ["(set-logic ALL)", f"(define-fun p () Int {P})"]
    for c in coeffs:
        lines.append(f"(assert (= (mod {I(c)} p) 0))")
    return "\n".join(lines)


def order_smt(facts):
    """facts: list of (a, b, text) integer positions that must satisfy a < b. Asserts that some fact fails."""
    lines = ["(set-logic ALL)"]
    dis = [f"(not (< {a} {b}))" for a, b, _ in facts]
    lines.append("(assert (or false " + " ".join(dis) + "))")
    return "\n".join(lines)


# ------------------------------------------------------------------ translator validation of the source inclusion
def source_check():
    """the files build.rs copied into OUT_DIR (newest per helper crate) against core.REPO's source: identical
    modulo `//!` -> `//`. Returns (ok, text)."""
    src = os.path.join(core.REPO, "aggregator", "src", "inner_product_argument.rs")
    want = "".join(("//" + l[3:] if l.startswith("//!") else l) + "\n" for l in open(src).read().splitlines())
    out = []
    ok = True
    for crate in ("verif-ipa-native", "verif-ipa-shimmed"):
        c = glob.glob(os.path.join(symf.SX_TARGET, "debug", "build", crate + "-*", "out", "inner_product_argument.rs"))
        if not c:
            return False, f"no OUT_DIR copy for {crate}"
        newest = max(c, key=os.path.getmtime)
        same = open(newest).read() == want
        ok &= same
        out.append(f"{crate}: {'identical' if same else 'DIFFERS'}")
    return ok, f"{src} sha256 {hashlib.sha256(open(src, 'rb').read()).hexdigest()[:16]}; " + ", ".join(out)


def msm_contract_check():
    """the shim's msm_best has the signature and the length assertion of the real one (read from core.REPO)"""
    real = open(os.path.join(core.REPO, "curves", "src", "msm.rs")).read()
    shim = open(os.path.join(core.VERIF, "engines", "symfield", "curves_shim", "src", "lib.rs")).read()
    sig = "pub fn msm_best<C: CurveAffine>(coeffs: &[C::Scalar], bases: &[C]) -> C::Curve {\n    assert_eq!(coeffs.len(), bases.len());"
    norm = lambda s: " ".join(s.split())
    return norm(sig) in norm(real) and norm(sig) in norm(shim)
