"""Foreign-field gate groups: chained obligations (DESIGN 3 C05).

A foreign-field gate instance is a group of polynomials on one row that are all meant to be the SAME
integer expression E reduced differently: one polynomial per auxiliary modulus m_j (with a private
quotient cell v_j) and one for the native modulus p. From `P_j == 0 (mod p)` for all of them the chip
wants to conclude `E = 0` over the integers, hence `E == 0 (mod m)` for the emulated modulus m.

The monolithic implication does not finish in any solver here (measured), so each group is decided by
a chain whose every link is a solver query or a ground (variable-free) arithmetic fact, and whose
conclusion is handed to the main query as a hypothesis:

  A_j  |P_j| < p over the integers under the range facts of the rest of the system  (solver)
       => P_j = 0 exactly
  B_j  (E - P_j) has all coefficients divisible by m_j                              (ground)
       => E == 0 (mod m_j)
  C    |E| < p * lcm(m_j) under the range facts                                     (solver)
  D    N = p*q0, N = m_j*q_j (all j), |N| < p*lcm  =>  N = 0                        (solver, CRT lemma)
       => E = 0 exactly
  E    R - E has all coefficients divisible by m, where R is E with every coefficient replaced by
       the true power of the base it is congruent to (base^e, e found by table lookup)  (ground)
       => R == 0 (mod m):  hypothesis `R = m * t` (t fresh) in the main query.

Cells are interpreted through `Enc.signed` (centred representative), products of two limb cells are
opaque bounded atoms shared with the specification (monomial mode)."""
import math
from . import solvers, csmt
from .solvers import I


class ChainFail(Exception):
    pass


def group_ff_gates(gates, moduli=None, P=csmt.P_BLS):
    """{(base name, row): [polys in index order]} for foreign-field gate groups: >= 2 polynomials on a
    row, and either named "Foreign-field ..." or (structural test, robust to renaming) polynomial j has a
    cell whose coefficient is -m_j (the private quotient of the j-th auxiliary modulus)."""
    groups = {}
    for g in gates:
        name, idx = g["gate"].rsplit(":", 1)
        groups.setdefault((name, g["row"]), {})[int(idx)] = g
    out = {}
    for k, v in groups.items():
        if len(v) < 2:
            continue
        polys = [v[i] for i in sorted(v)]
        ok = k[0].startswith("Foreign-field")
        if not ok and moduli and len(polys) == len(moduli) + 1:
            ok = all(any(len(cells) == 1 and (int(ch, 16) % P) in (mj % P, (-mj) % P) for ch, cells in polys[j]["poly"])
                     for j, mj in enumerate(moduli))
        if ok:
            out[k] = polys
    return out


class IntPoly:
    """integer polynomial over SMT atoms: {monomial tuple (sorted atom names): int coef}, () = constant"""

    def __init__(self, d=None):
        self.d = dict(d or {})

    def sub(self, o):
        r = dict(self.d)
        for k, v in o.d.items():
            r[k] = r.get(k, 0) - v
        return IntPoly({k: v for k, v in r.items() if v})

    def smt(self, term_of):
        parts = []
        for mono, c in sorted(self.d.items()):
            if not mono:
                parts.append(I(c))
            else:
                parts.append(f"(* {I(c)} {term_of(mono)})")
        return "(+ 0 " + " ".join(parts) + ")"


def poly_of_gate(e, g):
    """gate polynomial -> IntPoly with symmetric integer coefficients; monomials over class atoms."""
    P = e.P
    d = {}
    for ch, cells in g["poly"]:
        k = int(ch, 16) % P
        syms = []
        for x in cells:
            o = e.v(x)
            if isinstance(o, int):
                k = k * o % P
            else:
                syms.append(o)
        if k == 0:
            continue
        key = tuple(sorted(syms))
        d[key] = (d.get(key, 0) + k) % P
    return IntPoly({k: csmt.sym(v, P) for k, v in d.items() if v % P})


def run_chain(e, ob, extra_info, timeout=60):
    """Process every skipped FF gate group of Enc `e` (already encoded with skip_gate). Adds hypotheses
    to e.lines. Raises ChainFail(detail) when a link is not established. Returns list of link records."""
    P = e.P
    m = int(extra_info["emulated_modulus"], 16)
    moduli = [int(x) for x in extra_info["moduli"]]
    base = 1 << int(extra_info["log2_base"])
    n = int(extra_info["nb_limbs"])
    groups = group_ff_gates(e.skipped, moduli, P)
    leftovers = [g for g in e.skipped if (g["gate"].rsplit(":", 1)[0], g["row"]) not in groups]
    if leftovers:
        raise ChainFail(f"skipped gates that are not foreign-field groups: {[g['gate'] for g in leftovers][:3]}")
    records = []
    L = 1
    for mj in moduli:
        L = L * mj // math.gcd(L, mj)
    crt_done = {}

    def crt_lemma(mods):
        """link D for the moduli prefix `mods`; returns lcm(mods)"""
        key = tuple(mods)
        if key in crt_done:
            return crt_done[key]
        Lm = 1
        for mj in mods:
            Lm = Lm * mj // math.gcd(Lm, mj)
        # link D once per parameter set: CRT lemma, as a chain of LINEAR queries. With ground Bezout
        # coefficients a*M + b*mj = g:  N = M*qa and N = mj*qb  =>  N = lcm(M, mj) * (a*qb + b*qa).
        def egcd(x, y):
            if y == 0:
                return x, 1, 0
            g_, u, v = egcd(y, x % y)
            return g_, v, u - (x // y) * v
        M = P
        for j, mj in enumerate(mods):
            g_, a_, b_ = egcd(M, mj)
            assert a_ * M + b_ * mj == g_
            lcm_ = M * mj // g_
            q = ["(set-logic ALL)", "(declare-const N Int)", "(declare-const qa Int)", "(declare-const qb Int)",
                 f"(assert (= N (* {M} qa)))", f"(assert (= N (* {mj} qb)))",
                 f"(assert (not (= N (* {lcm_} (+ (* {I(a_)} qb) (* {I(b_)} qa))))))"]
            r = solvers.solve("\n".join(q), timeout=timeout)
            ob.queries += 1
            ob.solver_s += r.time_s
            if r.status != "unsat":
                raise ChainFail(f"link D{j} (N = {M.bit_length()}-bit M * qa and N = m_{j} * qb => N multiple of lcm) not proved: {r.status}")
            records.append((f"D{j}", "crt-step", r.solver, round(r.time_s, 2)))
            M = lcm_
        if M != P * Lm:
            raise ChainFail("internal: lcm mismatch")
        q = ["(set-logic ALL)", "(declare-const N Int)", "(declare-const qz Int)", f"(assert (= N (* {M} qz)))",
             f"(assert (and (< N {M}) (> N {I(-M)})))", "(assert (not (= N 0)))"]
        r = solvers.solve("\n".join(q), timeout=timeout)
        ob.queries += 1
        ob.solver_s += r.time_s
        if r.status != "unsat":
            raise ChainFail(f"link D-final not proved: {r.status}")
        records.append(("Dfin", "crt-final", r.solver, round(r.time_s, 2)))

        crt_done[key] = Lm
        return Lm
    # true-power table: residue mod m -> exponent
    pow_tab = {}
    for ex in range(0, 3 * n + 2):
        pow_tab.setdefault(pow(base, ex, m), ex)

    def mono_term(mono):
        if len(mono) == 1:
            return e.signed(mono[0])
        if len(mono) == 2:
            t = e.fmul(mono[0], mono[1])
            if e.ub.get(t, P) >= P:
                raise ChainFail(f"product {mono} of foreign-gate cells is not statically small (operands not range-checked?)")
            return t
        # degree 3: nest (exact while small)
        t = e.fmul(mono[0], mono[1])
        for a in mono[2:]:
            t = e.fmul(t, a)
        if e.ub.get(t, P) >= P:
            raise ChainFail(f"product {mono} of foreign-gate cells is not statically small")
        return t

    for (name, row), polys in sorted(groups.items(), key=lambda kv: kv[0][1]):
        if not (2 <= len(polys) <= len(moduli) + 1):
            raise ChainFail(f"group {name}@{row}: {len(polys)} polynomials but {len(moduli)} auxiliary moduli")
        # the chip uses the shortest prefix of the auxiliary moduli whose lcm with p exceeds the bound
        gmods = moduli[:len(polys) - 1]
        L = crt_lemma(gmods)
        ips = [poly_of_gate(e, g) for g in polys]
        Nat = ips[-1]
        # links A_j: every auxiliary polynomial vanishes over the integers
        for j, mj in enumerate(gmods):
            Pj = ips[j]
            pj_smt = Pj.smt(mono_term)
            q = e.text([f"(assert (or (>= {pj_smt} {P}) (<= {pj_smt} {I(-P)})))"])
            r = solvers.solve(q, timeout=timeout)
            ob.queries += 1
            ob.solver_s += r.time_s
            if r.status != "unsat":
                raise ChainFail(f"link A{j} ({name}@{row}: |aux polynomial {j}| < p) not established: {r.status}"
                                + (" — a range check on a limb/quotient cell is missing or too weak" if r.status == "sat" else ""))
            records.append((f"A{j}", f"{name}@{row}", r.solver, round(r.time_s, 2)))
        # link B: the common integer expression E. Coefficients of the native polynomial are only known
        # mod p (they may exceed p), those of the auxiliary ones mod m_j: reconstruct each coefficient by
        # CRT in (-pL/2, pL/2]. By construction E == native (mod p) and E == P_j (mod m_j) coefficient-wise;
        # an inconsistent or wrong coefficient yields a huge E and fails link C.
        monos = set(Nat.d)
        for ip in ips[:-1]:
            monos |= set(ip.d)
        Ed = {}
        for mono in monos:
            c, M = Nat.d.get(mono, 0) % P, P
            for j, mj in enumerate(gmods):
                cj = ips[j].d.get(mono, 0) % mj
                g = math.gcd(M, mj)
                if (cj - c) % g:
                    raise ChainFail(f"link B{j} ({name}@{row}): coefficients of monomial {mono} are inconsistent")
                # solve c + M*t == cj (mod mj)
                t = ((cj - c) // g * pow(M // g, -1, mj // g)) % (mj // g)
                c, M = c + M * t, M * mj // g
            c %= M
            if c > M // 2:
                c -= M
            if c:
                Ed[mono] = c
        E = IntPoly(Ed)
        records.append(("B", f"{name}@{row}", "ground-crt", 0))
        # link C
        e_smt = E.smt(mono_term)
        q = e.text([f"(assert (or (>= {e_smt} {P * L}) (<= {e_smt} {I(-(P * L))})))"])
        r = solvers.solve(q, timeout=timeout)
        ob.queries += 1
        ob.solver_s += r.time_s
        if r.status != "unsat":
            raise ChainFail(f"link C ({name}@{row}: |E| < p*lcm) not established: {r.status}")
        records.append(("C", f"{name}@{row}", r.solver, round(r.time_s, 2)))
        # conclusion E = 0; lifted polynomial R
        R = {}
        for mono, c in E.d.items():
            cm = c % m
            if cm == 0:
                continue
            lifted = None
            for k in (1, 2, 3, 4, 8):
                for sgn in (1, -1):
                    # c == sgn*k*base^ex (mod m)
                    if math.gcd(k, m) != 1:
                        continue
                    target = (sgn * c * pow(k, -1, m)) % m
                    if target in pow_tab:
                        lifted = sgn * k * (base ** pow_tab[target])
                        break
                if lifted is not None:
                    break
            if lifted is None:
                lifted = c
            if (lifted - c) % m:
                raise ChainFail("internal: lifting is not congruent")
            R[mono] = lifted
        Rp = IntPoly(R)
        records.append(("E", f"{name}@{row}", "ground", 0))
        # well-formed output vectors of the group (coefficients -base^i): zero has a unique representation
        zvec = {}
        for mono, c in R.items():
            if len(mono) == 1 and c < 0:
                ex_ = 0
                v_ = 1
                while v_ < -c:
                    v_ *= base
                    ex_ += 1
                if v_ == -c and ex_ < n:
                    zvec[ex_] = mono[0]
        if len(zvec) == n and all(e.bound(zvec[i]) <= base for i in range(n)):
            e.zero_rep_lemma([zvec[i] for i in range(n)])
        e.lines.append(f"(assert (= {e_smt} 0))")
        blk = find_block(R, base)
        if blk is None:
            t = e.fresh("tg")
            e.lines.append(f"(assert (= {Rp.smt(mono_term)} (* {m} {t})))")
            records.append(("H", f"{name}@{row}", "R = m*t", 0))
        else:
            exA, exB, Rlin = blk
            tA = [(base ** ex, a) for a, ex in exA.items()]
            tB = [(base ** ex, a) for a, ex in exB.items()]
            rA = e.residue(tA, 1, m)
            rB = e.residue(tB, 1, m)
            mm = e.MM(rA, rB, m)
            # R = (1+VA)(1+VB) + Lin',  Lin' = Rlin - 1 - VA - VB
            lin = dict(Rlin)
            lin[()] = lin.get((), 0) - 1
            for c, a in tA + tB:
                lin[(a,)] = lin.get((a,), 0) - c
            rL = e.residue([(c, k[0]) for k, c in lin.items() if k and c], lin.get((), 0), m)
            e.lines.append(f"(assert (or (= (+ {mm} {rL}) 0) (= (+ {mm} {rL}) {m})))")
            records.append(("H", f"{name}@{row}", "MM(rA,rB) + rLin == 0 (mod m)", 0))
    return records


def find_block(R, base):
    """If the degree-2 part of the lifted polynomial R is a single product VA*VB of two base-weighted
    limb sums (VA = sum base^exA[a] a, VB likewise; A = B for squares), return (exA, exB, linear rest).
    Purely syntactic; the result is verified by re-expanding."""
    quad = {k: c for k, c in R.items() if len(k) == 2}
    if not quad or any(len(k) > 2 for k in R):
        return None

    def ilog(c):
        ex, v = 0, 1
        while v < c:
            v *= base
            ex += 1
        return ex if v == c else None
    sq = [k for k in quad if k[0] == k[1]]
    try:
        if sq:
            # square: coefficient(x_i,x_i) = base^(2i), coefficient(x_i,x_j) = 2*base^(i+j)
            ex = {}
            for k in sq:
                l2 = ilog(quad[k])
                if l2 is None or l2 % 2:
                    return None
                ex[k[0]] = l2 // 2
            exA, exB = ex, ex
        else:
            k0 = min(quad, key=lambda k: (quad[k], k))
            a0, b0 = k0
            if ilog(quad[k0]) is None:
                return None
            exB = {}
            for k, c in quad.items():
                if a0 in k:
                    other = k[1] if k[0] == a0 else k[0]
                    exB[other] = ilog(c)
            exA = {}
            for k, c in quad.items():
                if b0 in k and a0 != b0:
                    other = k[1] if k[0] == b0 else k[0]
                    l_ = ilog(c)
                    exA[other] = None if l_ is None else l_ - exB[b0]
            if any(v is None for v in list(exA.values()) + list(exB.values())):
                return None
            sh = min(exA.values())
            exA = {a: v - sh for a, v in exA.items()}
            exB = {b: v + sh for b, v in exB.items()}
        # verify by expansion
        exp = {}
        for a, ea in exA.items():
            for b, eb in exB.items():
                k = tuple(sorted([a, b]))
                exp[k] = exp.get(k, 0) + base ** (ea + eb)
        if exp != quad:
            return None
    except Exception:
        return None
    return exA, exB, {k: c for k, c in R.items() if len(k) < 2}


def _unused():
    pass
