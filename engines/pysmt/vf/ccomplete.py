"""Engine C, completeness direction (solver-decided where the system is triangular).

Claim per operation shape:  for all instance inputs I and outputs O:  Spec(I, O)  =>  exists w. Sys(I, O, w)
("the emitted constraints are satisfiable with the correct result for every admissible input").

The existential is removed by Skolem terms derived FROM THE CONSTRAINT SYSTEM ITSELF (never from the
chip's witness-generation code): cells are visited until every one is defined from earlier ones by

  * a row in which it is the only undefined cell and occurs linearly with a constant coefficient
    (u := -(rest)/c),
  * a row in which it is the only undefined cell and occurs as u*L with L known (inverse hint:
    u := -(rest) * inv(L), inv an uninterpreted function with L != 0 => L*inv(L) = 1),
  * the is-zero gadget pattern (a*L = 1 - r, L*r = 0  =>  r := [L = 0], a := inv(L)),
  * a linear row all of whose undefined cells are range-looked-up digits with mixed-radix weights
    (digits of the known value by div/mod),
  * Boolean cells not defined by anything else are free choices: the query is the conjunction over all
    their assignments (at most 2^3 copies).

Then  Spec(I,O) and Defs  and  (some constraint of Sys is violated)  must be UNSAT. Products are always
the uninterpreted function with field lemmas here (no range fact of the system may be assumed: they are
what has to be proved). A `sat` answer is only a candidate: the model's inputs are run through the real
chip; only a rejected/panicking honest run is a VIOLATION, an accepted one means the Skolem strategy was
too weak (reported as 'not decided', never as an alarm)."""
import itertools
from . import csmt, solvers
from .csmt import sym
from .solvers import I


class NotTriangular(Exception):
    pass


class CEnc(csmt.Enc):
    """Encoder for one copy (suffix) of the Skolemised system. Known atoms (instance inputs/outputs) are
    shared between copies and keep their plain names."""

    def __init__(self, system, known_cells, suffix="", shared=None):
        super().__init__(system)
        self.sfx = suffix
        self.known_classes = {system.cls(c) for c in known_cells}
        self.shared = shared          # the copy-independent encoder holding declarations of known atoms
        self.runtime_exact = False
        self.constraints = []         # (label, smt bool)
        self.defs = []

    def v(self, cell):
        r = self.s.cls(cell)
        if r in self.s.const:
            return self.s.const[r]
        if r in self.known_classes and self.shared is not None:
            return self.shared.v(cell)
        if r not in self.vars:
            n = "v_" + r + self.sfx
            self.vars[r] = n
            self.lines.append(f"(declare-const {n} Int)")
            self.lines.append(f"(assert (and (<= 0 {n}) (< {n} {self.P})))")
            self.ub[n] = self.P
        return self.vars[r]

    def fresh(self, pfx, lo=None, hi=None):
        self.nq += 1
        n = f"{pfx}{self.nq}{self.sfx}"
        self.lines.append(f"(declare-const {n} Int)")
        if lo is not None:
            self.lines.append(f"(assert (and (<= {I(lo)} {n}) (<= {n} {I(hi)})))")
        return n

    def set_bound(self, a, B):
        pass                          # no range fact of the system may be assumed here

    def _is_shared(self, x):
        return isinstance(x, int) or (self.sfx != "" and not x.endswith(self.sfx))

    def fmul(self, a, b):
        if self.shared is not None and self._is_shared(a) and self._is_shared(b):
            return self.shared.fmul(a, b)     # products of known atoms are one atom for specification and copies
        n0 = len(self.prod_list)
        t = super().fmul(a, b)
        if len(self.prod_list) > n0 and not isinstance(t, int):
            # semantic cancellation / congruence against every other product (also the specification's):
            # x = x' != 0 and x*y = x'*y'  =>  y = y'   ;   {x,y} = {x',y'}  =>  products equal
            _, a_, b_ = self.prod_list[-1]
            others = list(self.prod_list[:-1]) + (list(self.shared.prod_list) if self.shared is not None else [])
            for (t2, c, d) in others[-40:]:
                for (x, y), (x2, y2) in (((a_, b_), (c, d)), ((a_, b_), (d, c)), ((b_, a_), (c, d)), ((b_, a_), (d, c))):
                    if x == x2:
                        continue          # the syntactic instance exists already
                    self.lines.append(f"(assert (=> (and (= {x} {x2}) (not (= {x} 0)) (= {t} {t2})) (= {y} {y2})))")
                self.lines.append(f"(assert (=> (or (and (= {a_} {c}) (= {b_} {d})) (and (= {a_} {d}) (= {b_} {c}))) (= {t} {t2})))")
        return t

    def define_mod(self, terms, const=0):
        if self.shared is not None and all(self._is_shared(n) for _, n in terms):
            return self.shared.define_mod(terms, const)
        return super().define_mod(terms, const)

    def lin_of(self, const, lin, quad, high):
        terms = [(sym(c, self.P), a) for a, c in lin.items() if c % self.P]
        for k, a, b in quad:
            terms.append((sym(k, self.P), self.fmul(a, b)))
        for k, syms in high:
            t = syms[0]
            for s2 in syms[1:]:
                t = self.fmul(t, s2)
            terms.append((sym(k, self.P), t))
        return terms, sym(const, self.P)

    def cong0(self, terms, const):
        return f"(= (mod {self.lin_smt(terms, const)} {self.P}) 0)"


def range_lookups(system, enc):
    """single-symbol range lookups: atom -> exclusive bound; everything else as opaque constraints"""
    P = system.P
    ranges, others = {}, []
    for lk in system.d["lookups"]:
        table = [[int(x, 16) for x in row] for row in lk["table"]]
        for inp in lk["inputs"]:
            vals = []
            for poly in inp["exprs"]:
                const, lin, quad, high = enc.split_poly(poly)
                vals.append((const, lin, bool(quad or high)))
            if any(v[2] for v in vals):
                raise NotTriangular("non-linear lookup input")
            rows = [r for r in table if all(l or c == r[i] for i, (c, l, _) in enumerate(vals))]
            symidx = [i for i, (c, l, _) in enumerate(vals) if l]
            if len(symidx) == 1:
                i = symidx[0]
                c, l, _ = vals[i]
                allowed = sorted(set(r[i] for r in rows))
                if c == 0 and len(l) == 1 and list(l.values())[0] == 1 and allowed == list(range(len(allowed))):
                    a = list(l)[0]
                    ranges[a] = min(ranges.get(a, P), len(allowed))
                    continue
            raise NotTriangular(f"lookup {lk['name']} is not a plain range check")
    return ranges


def skolemize(enc, gates, known_atoms, ranges):
    """Adds definitional assertions to enc.defs; returns (free_bits, defined order)."""
    P = enc.P
    K = set(known_atoms)
    parsed = []
    for g in gates:
        const, lin, quad, high = enc.split_poly(g["poly"])
        if high:
            raise NotTriangular("degree > 2 rows are not handled by the completeness Skolemiser")
        lin = {a: sym(c, P) for a, c in lin.items() if c % P}
        quad = [(sym(k, P), a, b) for k, a, b in quad]
        parsed.append((g, sym(const, P), lin, quad))
    pending = list(parsed)
    # Running-sum chains (`x = d0 + .. + acc1`, `acc1 = 2^32 d4 + ..`): an accumulator cell without a range that
    # occurs linearly in exactly two rows is eliminated from one of them (the combined row is a consequence of
    # the two; it is used only to FIND definitions, the constraints checked afterwards are the original rows),
    # so that the digits of the whole chain are seen in one radix row; the accumulator is then defined by the
    # row that still contains it.
    for _round in range(64):
        occ = {}
        for idx, (g, c, lin, quad) in enumerate(pending):
            for a in lin:
                occ.setdefault(a, []).append(idx)
        inquad = {x for (_, _, _, quad) in pending for (_, a, b) in quad for x in (a, b)}
        cand = [a for a, rows in occ.items() if len(rows) == 2 and a not in K and a not in ranges and a not in inquad]
        if not cand:
            break
        u = sorted(cand)[0]
        ia, ib = occ[u]
        ga, ca, la, qa = pending[ia]
        gb, cb, lb, qb = pending[ib]
        f = (lb[u] * pow(la[u], -1, P)) % P
        nl = dict(lb)
        for a, cc in la.items():
            nl[a] = sym((nl.get(a, 0) - f * cc) % P, P)
        nl = {a: cc for a, cc in nl.items() if cc % P}
        nq = list(qb) + [(sym((-f * k) % P, P), a, b) for k, a, b in qa]
        pending[ib] = (gb, sym((cb - f * ca) % P, P), nl, nq)
    free_bits = []
    inv_cache = {}

    def atoms_of(row):
        _, c, lin, quad = row
        s = set(lin)
        for k, a, b in quad:
            s.add(a)
            s.add(b)
        return s

    def finv(L):
        if L not in inv_cache:
            w = enc.fresh("inv", 0, P - 1)
            enc.lines.append(f"(assert (ite (= {L} 0) (= {w} 0) (= {enc.fmul(L, w)} 1)))")
            inv_cache[L] = w
        return inv_cache[L]

    def is_bool_row(row, u):
        _, c, lin, quad = row
        return c == 0 and set(lin) == {u} and len(quad) == 1 and quad[0][1] == quad[0][2] == u and (quad[0][0] + lin[u]) % P == 0

    def try_iszero():
        # rows A: a*L + r - 1 = 0 (a, r unknown or r known), B: r*L = 0, L linear over known atoms
        def factor(row):
            _, c, lin, quad = row
            out = []
            cands = set(a for _, a, b in quad) | set(b for _, a, b in quad)
            for v in cands:
                if any(v not in (a, b) or a == b for _, a, b in quad):
                    continue
                L = {}
                for k, a, b in quad:
                    o = b if a == v else a
                    L[o] = (L.get(o, 0) + k) % P
                if v in L:
                    continue
                out.append((v, (tuple(sorted(L.items())), lin.get(v, 0) % P),
                            (tuple(sorted((a, cc % P) for a, cc in lin.items() if a != v)), c % P)))
            return out
        neg = lambda Lf: (tuple(sorted((a, (-cc) % P) for a, cc in Lf[0])), (-Lf[1]) % P)
        for ra in pending:
            for (a, L1, rest1) in factor(ra):
                if a in K:
                    continue
                for rb in pending:
                    if rb is ra:
                        continue
                    for (r, L2, rest2) in factor(rb):
                        if r == a or not (L2 == L1 or L2 == neg(L1)) or rest2 != ((), 0):
                            continue
                        if not all(x in K for x, _ in L1[0]):
                            continue
                        kind = None
                        if rest1 == (((r, 1),), P - 1) or rest1 == (((r, P - 1),), 1):
                            kind = "eq"
                        if kind is None:
                            continue
                        Lv = enc.define_mod([(cc, x) for x, cc in L1[0]], L1[1])
                        w = finv(Lv) if not isinstance(Lv, int) else (pow(Lv, -1, P) if Lv % P else 0)
                        sgn = 1 if rest1 == (((r, 1),), P - 1) else -1
                        if r not in K:
                            enc.defs.append(f"(assert (= {r} (ite (= {Lv if not isinstance(Lv, int) else I(Lv)} 0) 1 0)))")
                            K.add(r)
                        # a*L = 1 - r  (sgn=1)   or  -a*L = ... handled by sign of the stored L1
                        aw = w if sgn == 1 else enc.define_mod([(-1, w)]) if not isinstance(w, int) else (-w) % P
                        enc.defs.append(f"(assert (= {a} {aw if not isinstance(aw, int) else I(aw)}))")
                        if not isinstance(Lv, int):
                            # distributivity of a*L over the summands of L (the row multiplies them separately)
                            t = enc.fmul(a, Lv)
                            enc.modeq([(-1, t)] + [(cc, enc.fmul(a, x)) for x, cc in L1[0]] + ([(L1[1], a)] if L1[1] else []), 0)
                        K.add(a)
                        return True
        return False

    progress = True
    while progress:
        progress = False
        pending = [row for row in pending if atoms_of(row) - K]
        if try_iszero():
            progress = True
            continue
        for row in list(pending):
            g, c, lin, quad = row
            U = atoms_of(row) - K
            if not U:
                continue
            if len(U) == 1:
                u = next(iter(U))
                if is_bool_row(row, u):
                    continue               # a bit constraint does not define its cell
                uq = [(k, a, b) for k, a, b in quad if u in (a, b)]
                if not uq:
                    cu = lin[u]
                    s = (-pow(cu, -1, P)) % P
                    terms = [(cc * s, a) for a, cc in lin.items() if a != u] + [(k * s, enc.fmul(a, b)) for k, a, b in quad]
                    r = enc.define_mod(terms, c * s)
                    enc.defs.append(f"(assert (= {u} {r if not isinstance(r, int) else I(r)}))")
                    K.add(u)
                    progress = True
                    continue
                if all(a != b for _, a, b in uq):
                    # u*(sum k a + cu) + rest = 0
                    Lk = enc.define_mod([(k, (b if a == u else a)) for k, a, b in uq], lin.get(u, 0))
                    rest_terms = [(cc, a) for a, cc in lin.items() if a != u] + [(k, enc.fmul(a, b)) for k, a, b in quad if u not in (a, b)]
                    negrest = enc.define_mod([(-cc, a) for cc, a in rest_terms], -c)
                    if isinstance(Lk, int):
                        if Lk % P == 0:
                            continue
                        r = enc.define_mod([(pow(Lk, -1, P), negrest)]) if not isinstance(negrest, int) else negrest * pow(Lk, -1, P) % P
                        enc.defs.append(f"(assert (= {u} {r if not isinstance(r, int) else I(r)}))")
                    else:
                        w = finv(Lk)
                        ud = enc.fmul(negrest, w) if not isinstance(negrest, int) else enc.define_mod([(negrest, w)])
                        enc.defs.append(f"(assert (= {u} {ud if not isinstance(ud, int) else I(ud)}))")
                        # field facts: (negrest * inv(L)) * L = negrest when L != 0 ; distributivity of u*L
                        t = enc.fmul(u, Lk)
                        nr = negrest if not isinstance(negrest, int) else I(negrest)
                        enc.lines.append(f"(assert (=> (not (= {Lk} 0)) (= {t} {nr})))")
                        enc.modeq([(-1, t)] + [(k, enc.fmul(u, (b if a == u else a))) for k, a, b in uq] + ([(lin[u], u)] if lin.get(u) else []), 0)
                    K.add(u)
                    progress = True
                    continue
            # radix row: all unknowns are range-checked digits, occurring linearly; at most ONE unknown without a
            # range may sit on top (running-sum rows `known = d + B*z`: z := known div B)
            unranged = [u for u in U if u not in ranges]
            if len(unranged) <= 1 and len(U) >= 2 - (0 if unranged else 1) and not any((a in U or b in U) for _, a, b in quad) \
                    and all(u in lin for u in U):
                digs = sorted(((abs(lin[u]), u) for u in U))
                sg = {1 if lin[u] > 0 else -1 for u in U}
                if len(sg) != 1:
                    continue
                sgn = sg.pop()
                if unranged and digs[-1][1] != unranged[0]:
                    continue
                w0 = digs[0][0]
                ok, acc = True, w0
                for wgt, u in digs:
                    if wgt != acc:
                        ok = False
                        break
                    acc = wgt * ranges[u] if u in ranges else None
                if not ok:
                    continue
                # sgn * sum w_i d_i + known = 0   =>   sum w_i d_i = -sgn*known =: V   (V read as an integer in [0,p))
                kn_terms = [(-sgn * cc, a) for a, cc in lin.items() if a not in U] + [(-sgn * k, enc.fmul(a, b)) for k, a, b in quad]
                V = enc.define_mod(kn_terms, -sgn * c)
                Vs = V if not isinstance(V, int) else I(V)
                # Euclidean (mixed-radix) decomposition of V as a TOTAL relation with fresh integers instead of
                # nested div/mod terms (linear arithmetic; 64-bit shapes: 77 s -> seconds):
                #   V = r0 + sum w_i d_i + W_top * q,  0 <= r0 < w0,  0 <= d_i < B_i,  q >= 0
                # has a solution for every V >= 0, so asserting it keeps `exists w` intact; an unranged top cell
                # is q; with all cells ranged the row itself then demands q = 0 and r0 = 0 (to be proved from Spec).
                r0 = enc.fresh("rr", 0, w0 - 1) if w0 > 1 else 0
                qt = enc.fresh("rq", 0, P)
                terms, Wtop = [], None
                for wgt, u in digs:
                    if u in ranges:
                        enc.defs.append(f"(assert (and (<= 0 {u}) (< {u} {ranges[u]})))")
                        terms.append(f"(* {wgt} {u})")
                        Wtop = wgt * ranges[u]
                    else:
                        enc.defs.append(f"(assert (= {u} {qt}))")
                        Wtop = wgt
                    K.add(u)
                enc.defs.append(f"(assert (= {Vs} (+ {r0} {' '.join(terms) if terms else 0} (* {Wtop} {qt}))))")
                progress = True
                continue
        if not progress:
            # free Boolean cells
            rem = set()
            for row in pending:
                rem |= atoms_of(row) - K
            for row in pending:
                U = atoms_of(row) - K
                if len(U) == 1:
                    u = next(iter(U))
                    if is_bool_row(row, u) and len(free_bits) < 3:
                        free_bits.append(u)
                        K.add(u)
                        progress = True
                        break
    rem = set()
    for row in parsed:
        rem |= atoms_of(row) - K
    if rem:
        raise NotTriangular(f"{len(rem)} cells are not determined by a triangular pass, e.g. {sorted(rem)[:4]}")
    # cells that occur in range lookups only (unused lanes of a range-check row): any in-range value
    for a in ranges:
        if a not in K:
            enc.defs.append(f"(assert (= {a} 0))")
            K.add(a)
    return free_bits


def build_query(system, spec, extra_info=None, max_free=3, pre=None):
    """Returns (smt text without check-sat, value names for I/O, info)."""
    P = system.P
    known_cells = system.ins + system.outs
    shared = CEnc(system, known_cells, suffix="")
    shared.extra = extra_info or {}
    Iat = [shared.v(c) for c in system.ins]
    Oat = [shared.v(c) for c in system.outs]
    # probe copy to learn the free bits
    probe = CEnc(system, known_cells, suffix="_p", shared=shared)
    probe.extra = shared.extra
    ranges = range_lookups(system, probe)
    known_atoms = [a for a in Iat + Oat if not isinstance(a, int)]
    free = skolemize(probe, system.d["gates"], known_atoms, ranges)
    if len(free) > max_free:
        raise NotTriangular(f"{len(free)} free Boolean cells")
    free_cls = [a[2:-2] for a in free]           # strip 'v_' and '_p'
    spec_smt = spec(shared, Iat, Oat)
    lines = []
    copies = []
    encs = []
    for beta in itertools.product((0, 1), repeat=len(free)):
        sfx = "_c" + "".join(map(str, beta))
        ce = CEnc(system, known_cells, suffix=sfx, shared=shared)
        ce.extra = shared.extra
        rg = range_lookups(system, ce)
        fixed = {}
        for cls_name, bval in zip(free_cls, beta):
            nm = ce.v(cls_name)
            ce.defs.append(f"(assert (= {nm} {bval}))")
            fixed[nm] = bval
        fb = skolemize_with_free(ce, system.d["gates"], known_atoms, rg, list(fixed))
        # constraints of this copy
        cons = []
        for g in system.d["gates"]:
            const, lin, quad, high = ce.split_poly(g["poly"])
            terms, c0 = ce.lin_of(const, lin, quad, high)
            cons.append((f"{g['gate']}@{g['row']}", ce.cong0(terms, c0)))
        for a, B in rg.items():
            cons.append((f"range {a}", f"(< {a} {B})"))
        flags = []
        for i, (lab, f) in enumerate(cons):
            fl = f"viol{sfx}_{i}"
            flags.append((fl, lab))
            ce.defs.append(f"(define-fun {fl} () Int (ite {f} 0 1))")
        viol = "(or false " + " ".join(f"(= {fl} 1)" for fl, _ in flags) + ")"
        lines += ce.lines + ce.defs + [f"(assert {viol})"]
        copies.append((sfx, flags))
        encs.append(ce)
    names = [a for a in Iat + Oat if not isinstance(a, int)]
    pre_lines = [f"(assert {pre(shared, Iat)})"] if pre else []
    base = list(shared.lines) + [f"(assert {spec_smt})"] + pre_lines
    lines = base + lines
    return "(set-logic ALL)\n" + "\n".join(lines) + "\n", names, dict(free_bits=len(free), copies=copies, Iat=Iat, Oat=Oat,
                                                                     encoders=[shared] + encs,
                                                                     vacuity_text="(set-logic ALL)\n" + "\n".join(base) + "\n")


def skolemize_with_free(enc, gates, known_atoms, ranges, free_atoms):
    return skolemize(enc, gates, list(known_atoms) + list(free_atoms), ranges)


def decide_complete(system, spec, timeout=60, pre=None, rounds=6):
    """('unsat', info) | ('sat', info with model inputs) | ('unknown', info) | raises NotTriangular"""
    text, names, info = build_query(system, spec, system.d.get("extra"), pre=pre)
    P = system.P
    encs = info["encoders"]
    extra = []
    # vacuity twin: the hypothesis Spec(I,O) and Pre(I) must be satisfiable, otherwise `unsat` below means nothing
    rv = solvers.solve(info["vacuity_text"], timeout=min(timeout, 20))
    info["queries"] = 1
    if rv.status != "sat":
        return "vacuous" if rv.status == "unsat" else "unknown", info
    for _ in range(rounds):
        prod_atoms = [it[1] for e in encs for it in e.order if it[0] == "mul"]
        ops = set()
        for e in encs:
            for it in e.order:
                if it[0] == "mul":
                    ops |= {x for x in (it[2], it[3]) if not isinstance(x, int)}
        r = solvers.solve(text + "\n".join(extra), timeout=timeout, get_values=sorted(set(names) | set(prod_atoms) | ops))
        info["solver"], info["time_s"] = r.solver, info.get("time_s", 0) + r.time_s
        info["queries"] = info.get("queries", 0) + 1
        if r.status != "sat":
            return r.status, info
        wrong = []
        for e in encs:
            for it in e.order:
                if it[0] != "mul":
                    continue
                _, t, a, b = it
                va = a if isinstance(a, int) else r.model.get(a)
                vb = b if isinstance(b, int) else r.model.get(b)
                vt = r.model.get(t)
                if va is None or vb is None or vt is None:
                    continue
                if vt != va * vb % P:
                    wrong.append((t, a, b, va, vb))
        if not wrong:
            info["model"] = {n: r.model.get(n) for n in names}
            return "sat", info
        for t, a, b, va, vb in wrong[:60]:
            if not isinstance(a, int):
                extra.append(f"(declare-const rq{len(extra)} Int)")
                extra.append(f"(assert (=> (= {a} {va}) (= {t} (- (* {va} {b if not isinstance(b, int) else I(b)}) (* {P} rq{len(extra) - 1})))))")
            if not isinstance(b, int) and a != b:
                extra.append(f"(declare-const rq{len(extra)} Int)")
                extra.append(f"(assert (=> (= {b} {vb}) (= {t} (- (* {vb} {a if not isinstance(a, int) else I(a)}) (* {P} rq{len(extra) - 1})))))")
    return "unknown", info
