"""Solver portfolio: z3-new (5.1) and cvc5 (1.0.3) on the same SMT-LIB2 text.

First definite answer (sat/unsat) wins and the other process is killed. Any `(error` line makes that
solver's answer inconclusive. Models are parsed from (get-value ...) output."""
import subprocess, time, os, re, threading, tempfile, signal

SOLVERS = {
    "z3-new": ["z3-new", "-in"],
    "z3": ["z3", "-in"],
    "cvc5": ["cvc5", "--lang", "smt2", "--produce-models", "--nl-ext-tplanes"],
}
DEFAULT = ("z3-new", "cvc5")


def _parse_values(out):
    """Parse `((name value) ...)` blocks printed by (get-value (...))."""
    vals = {}
    for m in re.finditer(r"\(\s*([A-Za-z_][\w.!$@#|']*)\s+(\(-\s*\d+\)|\d+|true|false|#x[0-9a-fA-F]+|#b[01]+)\s*\)", out):
        n, v = m.group(1), m.group(2)
        if v.startswith("(-"):
            vals[n] = -int(re.sub(r"[^\d]", "", v))
        elif v in ("true", "false"):
            vals[n] = v == "true"
        elif v.startswith("#x"):
            vals[n] = int(v[2:], 16)
        elif v.startswith("#b"):
            vals[n] = int(v[2:], 2)
        else:
            vals[n] = int(v)
    return vals


class Result:
    def __init__(self, status, solver=None, time_s=0.0, model=None, raw="", per_solver=None):
        self.status = status      # 'sat' | 'unsat' | 'unknown'
        self.solver = solver
        self.time_s = time_s
        self.model = model or {}
        self.raw = raw
        self.per_solver = per_solver or {}


def solve(smt, timeout=60, solvers=DEFAULT, get_values=None, mem_mb=6000):
    """smt: text without (check-sat). get_values: list of names to fetch on sat."""
    text = smt + "\n(check-sat)\n"
    if get_values:
        # chunk to keep lines reasonable
        names = list(get_values)
        for i in range(0, len(names), 200):
            text += "(get-value (" + " ".join(names[i:i + 200]) + "))\n"
    procs = {}
    t0 = time.time()
    results = {}
    lock = threading.Lock()
    done = threading.Event()

    def runner(name):
        cmd = list(SOLVERS[name])
        if name.startswith("z3"):
            cmd += [f"-T:{int(timeout)}", f"-memory:{mem_mb}"]
        else:
            cmd += [f"--tlimit={int(timeout * 1000)}"]
        try:
            p = subprocess.Popen(cmd, stdin=subprocess.PIPE, stdout=subprocess.PIPE, stderr=subprocess.STDOUT,
                                 text=True, start_new_session=True)
        except FileNotFoundError:
            with lock:
                results[name] = ("unknown", "solver not found", 0.0)
            return
        with lock:
            procs[name] = p
        try:
            out, _ = p.communicate(text, timeout=timeout + 5)
        except subprocess.TimeoutExpired:
            try:
                os.killpg(p.pid, signal.SIGKILL)
            except Exception:
                pass
            out = "timeout"
        dt = time.time() - t0
        first = out.strip().split("\n")[0].strip() if out.strip() else ""
        st = "unknown"
        lines = [l for l in out.split("\n") if l.strip()]
        errs = [i for i, l in enumerate(lines) if "(error" in l]
        if first == "sat":
            st = "sat" if not errs else "unknown"
        elif first == "unsat":
            # (get-value) after unsat legitimately errors; an error *before* the verdict is impossible
            # here because the verdict is the first line, so only accept when get-values were requested
            st = "unsat" if (not errs or get_values) else "unknown"
        elif errs:
            st = "unknown"
        with lock:
            results[name] = (st, out, dt)
            if st in ("sat", "unsat"):
                done.set()

    threads = [threading.Thread(target=runner, args=(s,), daemon=True) for s in solvers]
    for t in threads:
        t.start()
    # wait until first definite answer or all finished
    while any(t.is_alive() for t in threads):
        if done.wait(0.05):
            break
    # kill the rest
    with lock:
        for name, p in procs.items():
            if p.poll() is None:
                try:
                    os.killpg(p.pid, signal.SIGKILL)
                except Exception:
                    pass
    for t in threads:
        t.join(2)
    per = {k: (v[0], round(v[2], 3)) for k, v in results.items()}
    definite = [(k, v) for k, v in results.items() if v[0] in ("sat", "unsat")]
    if not definite:
        raw = "; ".join(f"{k}: {v[1][:200]!r}" for k, v in results.items())
        return Result("unknown", None, time.time() - t0, raw=raw, per_solver=per)
    sts = {v[0] for _, v in definite}
    if len(sts) > 1:
        return Result("unknown", None, time.time() - t0, raw="solvers disagree: " + str(per), per_solver=per)
    definite.sort(key=lambda kv: kv[1][2])
    name, (st, out, dt) = definite[0]
    model = _parse_values(out) if st == "sat" else {}
    return Result(st, name, dt, model, raw=out[:2000], per_solver=per)


def I(x):
    """SMT-LIB integer literal."""
    return str(x) if x >= 0 else f"(- {-x})"
