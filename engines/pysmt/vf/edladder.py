"""Ladder rows of the native Edwards chip (C06, part C06_M): gate-level specifications of the
add-then-double / conditional-add rows that `EccChip::mul` lays out (hence msm, msm_by_bounded_scalars,
mul_by_constant, clear_cofactor, assign, point_from_coordinates), and the 2-safety (determinism) obligation.

Everything here works on the constraint system extracted from the real chip by `cx edwards op=...`
(engines/extract/src/edwards.rs); nothing is a model of the chip. What is taken from the chip's
DOCUMENTATION (the layout diagrams in the doc comments of `cond_add` / `add_then_double` /
`create_double_gate`) is only WHICH cells of a ladder row hold the intermediate points: those cells are
the Skolem witnesses of the existential quantifiers of the specification

    exists S_0, A_1, S_1, ..., A_{k-1}.   A_0 = (0, 1)
        S_i     = A_i + b_i * P          (textbook, denominator-cleared, conditional addition)
        A_{i+1} = 2 * S_i                (textbook, denominator-cleared, doubling: the addition law at (S, S))
        R       = A_{k-1} + b_{k-1} * P

(any choice of witnesses is sound: Sys(I, O, w) => Spec'(I, O, pi(w)) => exists m. Spec(I, O, m)). The
equations are written over the coordinates of the previous point only (xs*xs is the MONOMIAL, never the
chip's auxiliary cell), so an auxiliary cell that is not tied to its defining product breaks the proof.

Three kinds of lemma are added to the encoder's formula; each is an instance of a commutative-ring / field
axiom and keeps its premise inside the formula:
  * substitution  (c = m(mc))  =>  m(S + mc) = m(S + {c})     for an auxiliary cell c whose defining row
    `c - m(mc) = 0` is a row of the system (monomial atoms are determined by their multiset of cells);
  * distributivity  u (*) D  ==  sum_j k_j  u (*) m_j + k_0 u   with  D == sum_j k_j m_j + k_0  (the `pivot` form of
    a row that is linear in its output cell u);
  * cancellation   D != 0  and  D = D'  and  u (*) D = u' (*) D'   =>   u = u'.
One lemma is an ASSUMPTION of number theory (listed in run.assumptions): a product with an even multiset of
cells is a square, a square is not equal to a quadratic non-residue; the non-residuosity of the constant is
Euler's criterion, evaluated by the solver on ground terms (`nonresidue_obligation`).
"""
import re
from functools import reduce
from collections import Counter
from . import core, solvers, csmt
from .cspec import *

P = csmt.P_BLS
CELL = re.compile(r"^a(\d+)_(\d+)$")


NONRES_USED = set()      # constants the quadratic-character lemma was instantiated with (validated by nonresidue_obligation)


class LayoutError(Exception):
    pass


# ---- locating the ladder rows ------------------------------------------------------------------------

def _cells(poly):
    return {c for _, cs in poly for c in cs}


def ladders(system):
    """[{rows: [ {row, xq,yq,xs,ys,b,xr,yr,w, dbl: None | {xp,yp,xx,xq,yq}} ]}] in row (= call) order, and the
    membership rows [{row, x, y}]. Columns by the documented layout, relative to the chip's first advice
    column c0; the cell sets the gate polynomials really mention are compared with that layout."""
    by = {}
    for g in system.d["gates"]:
        nm = g["gate"].rsplit(":", 1)[0]
        if nm in ("conditional add", "double", "witness point"):
            by.setdefault((nm, g["row"]), []).append(g)
    cols = [int(CELL.match(c).group(1)) for (nm, r), gs in by.items() if nm in ("conditional add", "witness point")
            for g in gs for c in _cells(g["poly"]) if CELL.match(c)]
    if not cols:
        raise LayoutError("no conditional-add / membership rows in the extracted system")
    c0 = min(cols)
    A = lambda j, r: f"a{c0 + j}_{r}"
    ca_rows = sorted(r for (nm, r) in by if nm == "conditional add")
    db_rows = {r for (nm, r) in by if nm == "double"}
    rows = []
    for r in ca_rows:
        want = {A(j, r) for j in (0, 1, 2, 3, 4, 5, 6, 8)}
        got = set().union(*[_cells(g["poly"]) for g in by[("conditional add", r)]])
        if got != want:
            raise LayoutError(f"conditional-add row {r}: cells {sorted(got)} differ from the documented layout {sorted(want)}")
        d = dict(row=r, xq=A(0, r), yq=A(1, r), xs=A(2, r), ys=A(3, r), b=A(4, r), xr=A(5, r), yr=A(6, r), w=A(8, r), dbl=None,
                 gates=by[("conditional add", r)])
        if r in db_rows:
            want = {A(5, r), A(6, r), A(7, r), A(0, r + 1), A(1, r + 1)}
            got = set().union(*[_cells(g["poly"]) for g in by[("double", r)]])
            if got != want:
                raise LayoutError(f"double row {r}: cells {sorted(got)} differ from the documented layout {sorted(want)}")
            d["dbl"] = dict(xp=A(5, r), yp=A(6, r), xx=A(7, r), xq=A(0, r + 1), yq=A(1, r + 1), gates=by[("double", r)])
        rows.append(d)
    if db_rows - set(ca_rows):
        raise LayoutError(f"double gate rows without a conditional-add gate: {sorted(db_rows - set(ca_rows))}")
    out, cur = [], []
    for d in rows:
        if cur and cur[-1]["row"] + 1 != d["row"]:
            raise LayoutError(f"ladder broken at row {d['row']}")
        cur.append(d)
        if d["dbl"] is None:
            out.append(dict(rows=cur))
            cur = []
    if cur:
        raise LayoutError("ladder does not end with a plain conditional-add row")
    mem = [dict(row=r, x=A(0, r), y=A(1, r)) for (nm, r) in sorted(by) if nm == "witness point"]
    return out, mem


# ---- monomials of the specification, substitution lemmas ----------------------------------------------

def _terms(e, poly):
    """gate polynomial -> [(coef, [atoms])] with constants folded (same folding as the encoder's)"""
    const, lin, quad, high = e.split_poly(poly)
    out = []
    if const % e.P:
        out.append((const % e.P, []))
    out += [(k % e.P, [a]) for a, k in lin.items() if k % e.P]
    out += [(k % e.P, [a, b]) for k, a, b in quad]
    out += [(k % e.P, list(syms)) for k, syms in high]
    return out


def aux_defs(e):
    """auxiliary cells defined by a row of the system `c - m(mc) = 0`: [(c, sorted tuple mc)]"""
    if getattr(e, "_ed_aux", None) is not None:
        return e._ed_aux
    out = []
    for g in e.s.d["gates"]:
        ts = _terms(e, g["poly"])
        if len(ts) != 2:
            continue
        lin = [t for t in ts if len(t[1]) == 1]
        prod = [t for t in ts if len(t[1]) >= 2]
        if len(lin) == 1 and len(prod) == 1 and (lin[0][0] + prod[0][0]) % e.P == 0 and lin[0][0] in (1, e.P - 1):
            out.append((lin[0][1][0], tuple(sorted(prod[0][1]))))
    e._ed_aux = out
    return out


def _mset(e, t):
    return e.monos_of.get(t, (t,))


def _sub(ms, part):
    c = Counter(ms)
    c.subtract(Counter(part))
    if any(v < 0 for v in c.values()):
        return None
    return tuple(sorted(c.elements()))


def M(e, *atoms):
    """product atom of the given atoms (ints fold), plus the substitution lemmas that connect it with the
    system's monomials over auxiliary cells"""
    t = reduce(e.fmul, atoms)
    if isinstance(t, int):
        return t
    done = e.__dict__.setdefault("_ed_sub_done", set())
    ms = _mset(e, t)
    for c, mc in aux_defs(e):
        rest = _sub(ms, mc)
        if rest is None or (t, c) in done:
            continue
        done.add((t, c))
        mdef = e.monoatom.get(mc)
        if mdef is None:
            continue
        ms2 = tuple(sorted(rest + (c,)))
        t2 = e.monoatom.get(ms2) if len(ms2) > 1 else c
        if t2 is None or t2 == t:
            continue
        e.lines.append(f"(assert (=> (= {c} {mdef}) (= {t} {t2})))")
    return t


def zero(e, terms, const=0):
    return eq(e.define_mod(terms, const), 0)


def D(e):
    return int(e.extra["curve_d"], 16)


def add_law(e, x1, y1, x2, y2, x3, y3):
    d = D(e)
    w = M(e, x1, x2, y1, y2)
    ex = zero(e, [(1, x3), (d, M(e, x3, w)), (-1, M(e, x1, y2)), (-1, M(e, x2, y1))])
    ey = zero(e, [(1, y3), (-d, M(e, y3, w)), (-1, M(e, y1, y2)), (-1, M(e, x1, x2))])
    return AND(ex, ey)


def on_curve(e, x, y):
    d = D(e)
    return zero(e, [(1, M(e, y, y)), (-1, M(e, x, x)), (-d, M(e, x, x, y, y))], -1)


def cond_add_law(e, A_, Pt, b, S):
    """S = A + b*P, textbook"""
    if isinstance(b, int):
        if b == 0:
            return AND(eq(S[0], A_[0]), eq(S[1], A_[1]))
        if b == 1:
            return add_law(e, A_[0], A_[1], Pt[0], Pt[1], S[0], S[1])
        return "false"
    return f"(ite (= {b} 1) {add_law(e, A_[0], A_[1], Pt[0], Pt[1], S[0], S[1])} {AND(isbit(b), eq(S[0], A_[0]), eq(S[1], A_[1]))})"


def ladder_spec(e, lad, Pt, bits_be, R):
    """the double-and-add recurrence along `bits_be` (most significant first) with the ladder's own cells as
    witnesses of the intermediate points"""
    rows = lad["rows"]
    if len(rows) != len(bits_be):
        return ["false"]     # the chip lays out one row per bit of the scalar
    conj = []
    A_ = (0, 1)
    for i, r in enumerate(rows[:-1]):
        S = (e.v(r["xr"]), e.v(r["yr"]))
        conj.append(cond_add_law(e, A_, Pt, bits_be[i], S))
        A2 = (e.v(r["dbl"]["xq"]), e.v(r["dbl"]["yq"]))
        conj.append(add_law(e, S[0], S[1], S[0], S[1], A2[0], A2[1]))
        A_ = A2
    conj.append(cond_add_law(e, A_, Pt, bits_be[-1], R))
    return conj


def cut_and(e, conj):
    """conjunction, with the conjuncts that are `false` or few left to the deciding query"""
    if any(c == "false" for c in conj):
        return "false"
    if len(conj) > 4:
        cut(e, [(f"conjunct {i}", c) for i, c in enumerate(conj)], *budgets())
    return AND(*conj)


def const_bits_be(c):
    return [int(x) for x in bin(c)[2:]]


# ---- specifications (e, I, O) -> SMT --------------------------------------------------------------------

def S_mul_const(c, nlad=0):
    def spec(e, I, O):
        lads, _ = ladders(e.s)
        return cut_and(e, ladder_spec(e, lads[nlad], (I[0], I[1]), const_bits_be(c), (O[0], O[1])))
    return spec


def S_mul_bytes(nbytes):
    def spec(e, I, O):
        lads, _ = ladders(e.s)
        dom = AND(*[lt(I[j], 256) for j in range(nbytes)])
        bits_le = []
        for j in range(nbytes):
            bits_le += bits_of(e, I[j], 8, guard=lt(I[j], 256))
        return cut_and(e, [dom] + ladder_spec(e, lads[0], (I[nbytes], I[nbytes + 1]), bits_le[::-1], (O[0], O[1])))
    return spec


def S_msm_const2(c0, c1):
    def spec(e, I, O):
        lads, _ = ladders(e.s)
        if len(lads) != 3:
            return "false"
        R0 = (e.v(lads[0]["rows"][-1]["xr"]), e.v(lads[0]["rows"][-1]["yr"]))
        R1 = (e.v(lads[1]["rows"][-1]["xr"]), e.v(lads[1]["rows"][-1]["yr"]))
        return cut_and(e, ladder_spec(e, lads[0], (I[0], I[1]), const_bits_be(c0), R0) +
                       ladder_spec(e, lads[1], (I[2], I[3]), const_bits_be(c1), R1) +
                       [add_law(e, R0[0], R0[1], R1[0], R1[1], O[0], O[1])])
    return spec


def cofactor_spec(e, Pt):
    """exists Q on the curve, A1, A2:  A1 = 2Q, A2 = 2 A1, P = 2 A2  (Q = the membership row's cells, A1 / A2 =
    the accumulator cells of the cofactor ladder)"""
    lads, mem = ladders(e.s)
    if not mem or not lads or len(lads[0]["rows"]) != 4:
        return "false"
    Q = (e.v(mem[0]["x"]), e.v(mem[0]["y"]))
    rows = lads[0]["rows"]
    A1 = (e.v(rows[0]["dbl"]["xq"]), e.v(rows[0]["dbl"]["yq"]))
    A2 = (e.v(rows[1]["dbl"]["xq"]), e.v(rows[1]["dbl"]["yq"]))
    dbl = lambda a, b: add_law(e, a[0], a[1], a[0], a[1], b[0], b[1])
    return AND(on_curve(e, Q[0], Q[1]), dbl(Q, A1), dbl(A1, A2), dbl(A2, Pt))


def S_assign_cofactor(e, I, O):
    return cofactor_spec(e, (I[0], I[1]))


def S_pfc_cofactor(e, I, O):
    return AND(eq(O[0], I[0]), eq(O[1], I[1]), cofactor_spec(e, (O[0], O[1])))


# ---- determinism (2-safety) -----------------------------------------------------------------------------

def _is_nonresidue(v):
    return pow(v % P, (P - 1) // 2, P) == P - 1


def pivot(e, poly, ucell, tag):
    """Row linear in its output cell u: poly = u * D + R. Returns dict(u, D, pd, R, ...) with D, R definitional
    atoms (D == sum_j k_j m_j + k_0, R == the rest of the row), pd = u (*) D, and asserts
      (A) distributivity       pd == sum_j k_j u (*) m_j + k_0 u      (ring axiom instance)
      (B) the row in pivot form pd + R == 0                            (the row itself, rewritten with (A); the
                                                                        system's monomials u*m_j and u (*) m_j are the
                                                                        same multiset of cells)
    sq: None, or the premise under which D != 0 follows from the quadratic-character lemma (then asserted)."""
    u = e.v(ucell)
    if isinstance(u, int):
        return None
    ts = _terms(e, poly)
    dpart, rpart, k0, r0 = [], [], 0, 0
    for k, atoms in ts:
        n = atoms.count(u)
        if n == 0:
            if atoms:
                rpart.append((k, atoms))
            else:
                r0 = (r0 + k) % e.P
            continue
        if n > 1:
            raise LayoutError(f"{tag}: output cell occurs non-linearly")
        rest = [a for a in atoms if a != u]
        if not rest:
            k0 = (k0 + k) % e.P
        else:
            dpart.append((k, rest))
    if not dpart:
        return None            # u has a constant coefficient: the row determines it linearly
    mons = [(k, M(e, *rest)) for k, rest in dpart]
    Dv = e.define_mod(mons, k0)
    if isinstance(Dv, int):
        return None
    rmons = [(k, M(e, *atoms)) for k, atoms in rpart]
    Rv = e.define_mod(rmons, r0)
    pd = e.fmul(u, Dv)
    e.modeq([(-1, pd)] + [(csmt.sym(k, e.P), M(e, u, m)) for k, m in mons] + ([(csmt.sym(k0, e.P), u)] if k0 else []), 0)   # (A)
    if isinstance(Rv, int):
        e.modeq([(1, pd)], csmt.sym(Rv, e.P))                                                                              # (B)
    else:
        e.modeq([(1, pd), (1, Rv)], 0)
    # quadratic-character lemma: D = k0 + k*m with m a square (even multiset once auxiliary cells are replaced
    # by their defining monomials) and -k0/k a non-residue  =>  D != 0
    sq = None
    if len(mons) == 1 and k0 and not isinstance(mons[0][1], int):
        k, m = mons[0]
        ms = list(_mset(e, m))
        prem = []
        changed = True
        while changed:
            changed = False
            for c, mc in aux_defs(e):
                if c in ms and e.monoatom.get(mc) is not None:
                    ms.remove(c)
                    ms += list(mc)
                    prem.append(f"(= {c} {e.monoatom[mc]})")
                    changed = True
        nr = (-k0 * pow(k, -1, e.P)) % e.P
        if all(v % 2 == 0 for v in Counter(ms).values()) and _is_nonresidue(nr):
            sq = AND(*prem) if prem else "true"
            e.lines.append(f"(assert (=> {sq} (not (= {Dv} 0))))")
            NONRES_USED.add(nr)
    return dict(u=u, D=Dv, pd=pd, R=Rv, sq=sq, tag=tag, dm=[(k, m) for k, m in mons], k0=k0, rm=rmons, r0=r0)


def pair_lemmas(e, x, y):
    """two pivot forms of the same row shape (run 1 / run 2): congruence of the definitional atoms and
    cancellation. Each is valid in any field."""
    same = lambda a, b: [k for k, _ in a] == [k for k, _ in b]
    if same(x["dm"], y["dm"]) and x["k0"] == y["k0"]:
        prem = AND(*[eq(m1, m2) for (_, m1), (_, m2) in zip(x["dm"], y["dm"]) if m1 != m2])
        e.lines.append(f"(assert (=> {prem} (= {x['D']} {y['D']})))")
    if same(x["rm"], y["rm"]) and x["r0"] == y["r0"] and not isinstance(x["R"], int) and not isinstance(y["R"], int):
        prem = AND(*[eq(m1, m2) for (_, m1), (_, m2) in zip(x["rm"], y["rm"]) if m1 != m2])
        e.lines.append(f"(assert (=> {prem} (= {x['R']} {y['R']})))")
    A_ = lambda t: A(t)
    e.lines.append(f"(assert (=> (and (not (= {x['D']} 0)) (= {x['D']} {y['D']}) (= {x['pd']} {y['pd']})) (= {x['u']} {y['u']})))")
    e.lines.append(f"(assert (=> (and (= {x['D']} {y['D']}) (= {A_(x['R'])} {A_(y['R'])})) (= {x['pd']} {y['pd']})))")


def cut(e, facts, budget, per):
    """Cut rule (same as vecmap.prove_then_assume, with a time budget): each fact is sent to the portfolio as
    `Sys and (facts already proved) and not fact`; on unsat it is a consequence of the system and is added to the
    encoder's assertions. Stops at the first fact that is not proved (later ones build on it): the deciding query
    of cengine.decide then has to find the counterexample or comes back INCONCLUSIVE. Returns #proved."""
    import time
    t0 = time.time()
    n = 0
    for name, f in facts:
        left = budget - (time.time() - t0)
        if left < 1:
            break
        r = solvers.solve(e.text([f"(assert (not {f}))"]), timeout=max(1, min(per, left)))
        if r.status != "unsat":
            break
        e.lines.append(f"(assert {f})")
        n += 1
    e.ed_cut = (n, len(facts), round(time.time() - t0, 1))
    return n


def budgets():
    return (35, 10) if core.tier() == "quick" else (420, 90)


def ladder_pivots(e, lad, li):
    """pivot forms of the four output equations of every row of a ladder, in a fixed order"""
    out = []
    for i, r in enumerate(lad["rows"]):
        for g in r["gates"]:
            j = g["gate"].rsplit(":", 1)[1]
            if j in ("0", "1"):
                out.append(((i, "ca", j), pivot(e, g["poly"], r["xr"] if j == "0" else r["yr"], f"ladder {li} row {i} cond-add {j}")))
        if r["dbl"]:
            for g in r["dbl"]["gates"]:
                j = g["gate"].rsplit(":", 1)[1]
                if j in ("0", "1"):
                    out.append(((i, "db", j), pivot(e, g["poly"], r["dbl"]["xq"] if j == "0" else r["dbl"]["yq"], f"ladder {li} row {i} double {j}")))
    return out


def S_det(pairs, nout=2):
    """the operation was laid out twice on the same assigned inputs: equal results, on the set of accepted
    assignments where no conditional-add denominator vanishes (see run.outside). `pairs`: [(ladder index of
    run 1, ladder index of run 2)]"""
    def spec(e, I, O):
        lads, _ = ladders(e.s)
        nz, steps = [], []
        for (a, b) in pairs:
            if len(lads[a]["rows"]) != len(lads[b]["rows"]):
                return "false"
            pa, pb = ladder_pivots(e, lads[a], a), ladder_pivots(e, lads[b], b)
            for (ka, x), (kb, y) in zip(pa, pb):
                assert ka == kb
                for p_ in (x, y):
                    if p_ is not None and p_["sq"] is None:
                        nz.append(ne(p_["D"], 0))
                if x is None or y is None:
                    continue
                pair_lemmas(e, x, y)
                steps.append((x["tag"], eq(x["u"], y["u"])))
        NZ = AND(*nz)
        goal = AND(*[eq(O[j], O[nout + j]) for j in range(nout)])
        cut(e, [(nm, IMP(NZ, f)) for nm, f in steps], *budgets())
        return IMP(NZ, goal)
    return spec


# ---- Euler's criterion on ground terms ---------------------------------------------------------------

def nonresidue_obligation(run, values, tag="C06/M"):
    """v^((p-1)/2) = p - 1 (mod p) for the constants the quadratic-character lemma was instantiated with:
    a square-and-multiply chain of ground terms, evaluated by the solvers (variable-free)."""
    for v in sorted(values):
        ob = core.Ob(f"edladder/nonresidue[{hex(v)[:14]}..]", "C", "Euler's criterion: the constant used by the quadratic-character lemma is a quadratic non-residue of the base field",
                     functions=["midnight_curves::JubjubExtended (EdwardsCurve::D)"], bound="ground", key="edladder/nonresidue")
        ob.nontrivial = False
        run.add(ob)
        ex = (P - 1) // 2
        lines = ["(set-logic ALL)", f"(define-fun x0 () Int {v % P})"]
        acc = "x0"
        n = 0
        for bit in bin(ex)[3:]:
            n += 1
            lines.append(f"(define-fun s{n} () Int (mod (* {acc} {acc}) {P}))")
            acc = f"s{n}"
            if bit == "1":
                n += 1
                lines.append(f"(define-fun s{n} () Int (mod (* {acc} x0) {P}))")
                acc = f"s{n}"
        r = solvers.solve("\n".join(lines + [f"(assert (not (= {acc} {P - 1})))"]), timeout=60)
        r2 = solvers.solve("\n".join(lines + [f"(assert (= {acc} {P - 1}))"]), timeout=60)
        ob.queries = 2
        ob.solver_s = r.time_s + r2.time_s
        if r.status == "unsat" and r2.status == "sat":
            ob.vacuity = True
            ob.set(core.HOLDS, solver=r.solver)
        elif r.status == "sat":
            ob.set(core.INCONCLUSIVE, "the constant is a quadratic residue: the quadratic-character lemma used by the determinism obligations is not justified")
        else:
            ob.set(core.INCONCLUSIVE, f"ground evaluation came back {r.status}/{r2.status}")
        run.log(f"{ob.status:12s} {ob.id} {ob.solver or ''} {ob.solver_s:.1f}s {ob.detail[:120]}")
