"""Ladder rows of the native Edwards chip (C06, part C06_M): gate-level specifications of the
add-then-double / conditional-add rows that `EccChip::mul` lays out (hence msm, msm_by_bounded_scalars,
mul_by_constant, clear_cofactor, assign, point_from_coordinates), and the 2-safety (determinism) obligation.

Everything here works on the constraint system extracted from the real chip by `cx edwards op=...`
(engines/extract/src/edwards.rs); nothing is a model of the chip. What is taken from the chip's
DOCUMENTATION (the layout diagrams in the doc comments of `cond_add` / `add_then_double` /
`create_double_gate`) is only WHICH cells of a ladder row hold the intermediate points: those cells are
the Skolem witnesses of the existential quantifiers of the specification

    exists S_0, A_1, S_1, ..., A_{k-1}.   A_0 = (0, 1)
        S_i     = A_i + b_i * P          (textbook, denominator-cleared, conditional addition)
        A_{i+1} = 2 * S_i                (textbook, denominator-cleared, doubling: the addition law at (S, S))
        R       = A_{k-1} + b_{k-1} * P

(any choice of witnesses is sound: Sys(I, O, w) => Spec'(I, O, pi(w)) => exists m. Spec(I, O, m)). The
equations are written over the coordinates of the previous point only (xs*xs is the MONOMIAL, never the
chip's auxiliary cell), so an auxiliary cell that is not tied to its defining product breaks the proof.

How the queries are kept small. The encoder states pairwise congruence lemmas between all abstract products, so
the formula of an 8-row ladder has ~28 000 assertions and a row-level fact that takes 0.1 s in isolation is not
found in 60 s inside it. Every conjunct of the specifications here is ROW-LOCAL: it follows from the three
polynomials of one gate row (two rows for the 2-safety step). So each conjunct is first proved from the
SUB-SYSTEM made of just those rows of the extracted system (same cells, same copy classes, same encoder:
`Cut.local`); a sub-system has fewer hypotheses, so what it implies the whole system implies (cut rule); the
proved conjunct is then added to the full encoding as a fact, and the deciding query of cengine.decide
(`Sys and facts and not Spec`) is propositional. A conjunct that is NOT proved locally is not added: the deciding
query then has to find the forged assignment (exact re-check, replay on the real MockProver) or comes back
INCONCLUSIVE.

Lemmas added to an encoding; each is an instance of a commutative-ring / field axiom, premises inside:
  * substitution  (c = m(mc))  =>  m(S + mc) = m(S + {c})     for an auxiliary cell c whose defining row
    `c - m(mc) = 0` is a row of the system (monomial atoms are determined by their multiset of cells);
  * distributivity  u (*) D  ==  sum_j k_j  u (*) m_j + k_0 u   with  D == sum_j k_j m_j + k_0  (the `pivot` form of
    a row that is linear in its output cell u), and the row rewritten with it:  u (*) D + R == 0;
  * congruence of definitional atoms  (m_j = m_j' for all j)  =>  D = D'   (likewise R);
  * cancellation   D != 0  and  D = D'  and  u (*) D = u' (*) D'   =>   u = u'.
One lemma is an ASSUMPTION of number theory (listed in run.assumptions): a product with an even multiset of
cells is a square, a square is not equal to a quadratic non-residue; the non-residuosity of the constant is
Euler's criterion, evaluated by the solvers on ground terms (`nonresidue_obligation`).
"""
import re, time
from functools import reduce
from collections import Counter
from . import core, solvers, csmt
from .cspec import *

P = csmt.P_BLS
CELL = re.compile(r"^a(\d+)_(\d+)$")
NONRES_USED = set()      # constants the quadratic-character lemma was instantiated with (validated by nonresidue_obligation)
STATS = {"local_queries": 0, "local_proved": 0, "local_s": 0.0}


class LayoutError(Exception):
    pass


# ---- locating the ladder rows ------------------------------------------------------------------------

def _cells(poly):
    return {c for _, cs in poly for c in cs}


def ladders(system):
    """([{rows: [ {row, xq,yq,xs,ys,b,xr,yr,w, gates, dbl: None | {xp,yp,xx,xq,yq, gates}} ]}], membership rows
    [{row, x, y, gates}]) in row (= call) order. Columns by the documented layout, relative to the chip's first
    advice column c0; the cell sets the gate polynomials really mention are compared with that layout."""
    if getattr(system, "_ed_ladders", None) is not None:
        return system._ed_ladders
    by = {}
    for g in system.d["gates"]:
        nm = g["gate"].rsplit(":", 1)[0]
        if nm in ("conditional add", "double", "witness point"):
            by.setdefault((nm, g["row"]), []).append(g)
    cols = [int(CELL.match(c).group(1)) for (nm, r), gs in by.items() if nm in ("conditional add", "witness point")
            for g in gs for c in _cells(g["poly"]) if CELL.match(c)]
    if not cols:
        raise LayoutError("no conditional-add / membership rows in the extracted system")
    c0 = min(cols)
    A_ = lambda j, r: f"a{c0 + j}_{r}"
    ca_rows = sorted(r for (nm, r) in by if nm == "conditional add")
    db_rows = {r for (nm, r) in by if nm == "double"}
    rows = []
    for r in ca_rows:
        want = {A_(j, r) for j in (0, 1, 2, 3, 4, 5, 6, 8)}
        got = set().union(*[_cells(g["poly"]) for g in by[("conditional add", r)]])
        if not got <= want or not {A_(j, r) for j in (0, 1, 2, 3, 4, 5, 6)} <= got:
            raise LayoutError(f"conditional-add row {r}: cells {sorted(got)} differ from the documented layout {sorted(want)}")
        d = dict(row=r, xq=A_(0, r), yq=A_(1, r), xs=A_(2, r), ys=A_(3, r), b=A_(4, r), xr=A_(5, r), yr=A_(6, r), w=A_(8, r), dbl=None,
                 gates=by[("conditional add", r)])
        if r in db_rows:
            want = {A_(5, r), A_(6, r), A_(7, r), A_(0, r + 1), A_(1, r + 1)}
            got = set().union(*[_cells(g["poly"]) for g in by[("double", r)]])
            if not got <= want or not {A_(5, r), A_(6, r), A_(0, r + 1), A_(1, r + 1)} <= got:
                raise LayoutError(f"double row {r}: cells {sorted(got)} differ from the documented layout {sorted(want)}")
            d["dbl"] = dict(xp=A_(5, r), yp=A_(6, r), xx=A_(7, r), xq=A_(0, r + 1), yq=A_(1, r + 1), gates=by[("double", r)])
        rows.append(d)
    if db_rows - set(ca_rows):
        raise LayoutError(f"double gate rows without a conditional-add gate: {sorted(db_rows - set(ca_rows))}")
    out, cur = [], []
    for d in rows:
        if cur and cur[-1]["row"] + 1 != d["row"]:
            raise LayoutError(f"ladder broken at row {d['row']}")
        cur.append(d)
        if d["dbl"] is None:
            out.append(dict(rows=cur))
            cur = []
    if cur:
        raise LayoutError("ladder does not end with a plain conditional-add row")
    mem = [dict(row=r, x=A_(0, r), y=A_(1, r), gates=by[(nm, r)]) for (nm, r) in sorted(by) if nm == "witness point"]
    system._ed_ladders = (out, mem)
    return out, mem


# ---- sub-systems and the cut rule -------------------------------------------------------------------------

def budgets():
    """(total seconds for the local proofs of one obligation, per proof)"""
    return (30, 8) if core.tier() == "quick" else (400, 60)


class Cut:
    """Prove conjuncts from sub-systems / from the full system and add them to the full encoding as facts."""

    def __init__(self, e):
        self.e = e
        self.t0 = time.time()
        self.budget, self.per = budgets()
        self.proved = self.tried = 0
        e.ed_cut = self

    def left(self):
        return self.budget - (time.time() - self.t0)

    def local(self, gates, build, name=""):
        """build(enc) -> SMT Bool over the cells (and definitional atoms it creates in `enc`). Proved from the rows
        `gates` alone; on success build(self.e) is asserted in the full encoding. Returns build(self.e)."""
        f_main = build(self.e)
        if f_main in ("true", "false") or self.left() < 1 or NO_CUT[0]:
            return f_main
        sysm = self.e.s
        d = dict(sysm.d)
        d["gates"] = list(gates)
        d["lookups"] = []
        sub = csmt.System(d, sysm.P)
        es = csmt.Enc(sub)
        es.extra = self.e.extra
        es.encode(False)
        f_sub = build(es)
        r = solvers.solve(es.text([f"(assert (not {f_sub}))"]), timeout=max(1, min(self.per, self.left())))
        self.tried += 1
        STATS["local_queries"] += 1
        STATS["local_s"] += r.time_s
        if r.status == "unsat":
            self.e.lines.append(f"(assert {f_main})")
            self.proved += 1
            STATS["local_proved"] += 1
        return f_main

    def full(self, f, name=""):
        """a conjunct that is not row-local: proved from the full encoding (facts so far included)"""
        if f in ("true", "false") or self.left() < 1 or NO_CUT[0]:
            return f
        r = solvers.solve(self.e.text([f"(assert (not {f}))"]), timeout=max(1, min(self.per, self.left())))
        self.tried += 1
        if r.status == "unsat":
            self.e.lines.append(f"(assert {f})")
            self.proved += 1
        return f


# ---- monomials of the specification, substitution lemmas ----------------------------------------------

def _terms(e, poly):
    """gate polynomial -> [(coef, [atoms])] with constants folded (same folding as the encoder's)"""
    const, lin, quad, high = e.split_poly(poly)
    out = []
    if const % e.P:
        out.append((const % e.P, []))
    out += [(k % e.P, [a]) for a, k in lin.items() if k % e.P]
    out += [(k % e.P, [a, b]) for k, a, b in quad]
    out += [(k % e.P, list(syms)) for k, syms in high]
    return out


def aux_defs(e):
    """auxiliary cells defined by a row of the system `c - m(mc) = 0`: [(c, sorted tuple mc)]"""
    if getattr(e, "_ed_aux", None) is not None:
        return e._ed_aux
    out = []
    for g in e.s.d["gates"]:
        ts = _terms(e, g["poly"])
        if len(ts) != 2:
            continue
        lin = [t for t in ts if len(t[1]) == 1]
        prod = [t for t in ts if len(t[1]) >= 2]
        if len(lin) == 1 and len(prod) == 1 and (lin[0][0] + prod[0][0]) % e.P == 0 and lin[0][0] in (1, e.P - 1):
            out.append((lin[0][1][0], tuple(sorted(prod[0][1]))))
    e._ed_aux = out
    return out


def _mset(e, t):
    return e.monos_of.get(t, (t,))


def _sub(ms, part):
    c = Counter(ms)
    c.subtract(Counter(part))
    if any(v < 0 for v in c.values()):
        return None
    return tuple(sorted(c.elements()))


def M(e, *atoms):
    """product atom of the given atoms (ints fold), plus the substitution lemmas that connect it with the
    system's monomials over auxiliary cells"""
    t = reduce(e.fmul, atoms)
    if isinstance(t, int):
        return t
    done = e.__dict__.setdefault("_ed_sub_done", set())
    ms = _mset(e, t)
    for c, mc in aux_defs(e):
        rest = _sub(ms, mc)
        if rest is None or (t, c) in done:
            continue
        done.add((t, c))
        mdef = e.monoatom.get(mc)
        if mdef is None:
            continue
        ms2 = tuple(sorted(rest + (c,)))
        t2 = e.monoatom.get(ms2) if len(ms2) > 1 else c
        if t2 is None or t2 == t:
            continue
        e.lines.append(f"(assert (=> (= {c} {mdef}) (= {t} {t2})))")
    return t


def zero(e, terms, const=0):
    return eq(e.define_mod(terms, const), 0)


def D(e):
    return int(e.extra["curve_d"], 16)


def add_law(e, x1, y1, x2, y2, x3, y3):
    d = D(e)
    w = M(e, x1, x2, y1, y2)
    ex = zero(e, [(1, x3), (d, M(e, x3, w)), (-1, M(e, x1, y2)), (-1, M(e, x2, y1))])
    ey = zero(e, [(1, y3), (-d, M(e, y3, w)), (-1, M(e, y1, y2)), (-1, M(e, x1, x2))])
    return AND(ex, ey)


def dbl_law(e, S, T):
    return add_law(e, S[0], S[1], S[0], S[1], T[0], T[1])


def on_curve(e, x, y):
    d = D(e)
    return zero(e, [(1, M(e, y, y)), (-1, M(e, x, x)), (-d, M(e, x, x, y, y))], -1)


def cond_add_law(e, A_, Pt, b, S):
    """S = A + b*P, textbook. A symbolic b is a bit by a separate conjunct of the specification."""
    same = AND(eq(S[0], A_[0]), eq(S[1], A_[1]))
    if isinstance(b, int):
        return same if b == 0 else (add_law(e, A_[0], A_[1], Pt[0], Pt[1], S[0], S[1]) if b == 1 else "false")
    return AND(IMP(eq(b, 1), add_law(e, A_[0], A_[1], Pt[0], Pt[1], S[0], S[1])), IMP(eq(b, 0), same))


def const_bits_be(c):
    return [int(x) for x in bin(c)[2:]]


def pt(e, cx, cy):
    return (cx if isinstance(cx, int) else e.v(cx), cy if isinstance(cy, int) else e.v(cy))


def ladder_conjs(lad, Pc, bits_be, Rc):
    """[(gates, build(enc))]: the double-and-add recurrence along `bits_be` (most significant first; an int, or
    None = the row's own bit cell is the witness) with the ladder's own cells as witnesses of the intermediate
    points. Pc, Rc: cell names (or ints) of the base point / the result."""
    rows = lad["rows"]
    if len(rows) != len(bits_be):
        return [([], lambda e: "false")]     # the chip lays out one row per bit of the scalar
    out = []
    Ac = (0, 1)
    for i, r in enumerate(rows):
        last = i == len(rows) - 1
        Sc = Rc if last else (r["xr"], r["yr"])
        bit = bits_be[i]

        def ca(e, Ac=Ac, Sc=Sc, bit=bit, r=r):
            return cond_add_law(e, pt(e, *Ac), pt(e, *Pc), bit if bit is not None else e.v(r["b"]), pt(e, *Sc))
        out.append((r["gates"], ca))
        if not last:
            A2 = (r["dbl"]["xq"], r["dbl"]["yq"])

            def db(e, Sc=Sc, A2=A2):
                return dbl_law(e, pt(e, *Sc), pt(e, *A2))
            out.append((r["dbl"]["gates"], db))
            Ac = A2
    return out


def run_conjs(e, conjs, extra_full=()):
    """local proof of every row conjunct, full-system proof of the others; returns the conjunction (the
    specification handed to cengine.decide)"""
    cut = Cut(e)
    parts = [cut.full(f) for f in extra_full]
    for gates, build in conjs:
        parts.append(cut.local(gates, build))
    if any(p == "false" for p in parts):
        return "false"
    return AND(*parts)


# ---- specifications (e, I, O) -> SMT --------------------------------------------------------------------

def S_mul_const(c, nlad=0):
    def spec(e, I, O):
        lads, _ = ladders(e.s)
        s = e.s
        return run_conjs(e, ladder_conjs(lads[nlad], (s.ins[0], s.ins[1]), const_bits_be(c), (s.outs[0], s.outs[1])))
    return spec


def S_mul_bytes(nbytes):
    """scalar = sum_j 256^j byte_j, bits little endian; the rows' bit cells are the witnesses of the bits"""
    def spec(e, I, O):
        lads, _ = ladders(e.s)
        s = e.s
        rows = lads[0]["rows"]
        k = 8 * nbytes
        if len(rows) != k:
            return "false"
        bits_le = [e.v(rows[k - 1 - i]["b"]) for i in range(k)]
        glob = [AND(*[isbit(b) for b in bits_le])]
        for j in range(nbytes):
            glob.append(AND(lt(I[j], 256), eq(I[j], wsum(bits_le[8 * j:8 * j + 8]))))
        return run_conjs(e, ladder_conjs(lads[0], (s.ins[nbytes], s.ins[nbytes + 1]), [None] * k, (s.outs[0], s.outs[1])), glob)
    return spec


def S_msm_const2(c0, c1):
    def spec(e, I, O):
        lads, _ = ladders(e.s)
        s = e.s
        if len(lads) != 3 or len(lads[2]["rows"]) != 1:
            return "false"
        R0 = (lads[0]["rows"][-1]["xr"], lads[0]["rows"][-1]["yr"])
        R1 = (lads[1]["rows"][-1]["xr"], lads[1]["rows"][-1]["yr"])
        add = lambda en: add_law(en, *pt(en, *R0), *pt(en, *R1), *pt(en, s.outs[0], s.outs[1]))
        return run_conjs(e, ladder_conjs(lads[0], (s.ins[0], s.ins[1]), const_bits_be(c0), R0) +
                         ladder_conjs(lads[1], (s.ins[2], s.ins[3]), const_bits_be(c1), R1) + [(lads[2]["rows"][0]["gates"], add)])
    return spec


def cofactor_conjs(system, Pc):
    """exists Q on the curve and ladder cells with  S0 = (0,1) + Q (textbook: S0 = Q), A1 = 2 S0, S1 = A1, A2 = 2 S1,
    S2 = A2, A3 = 2 S2, P = A3: three textbook doublings of the witnessed point (Q = the membership row's
    cells; the recurrence of the constant 8 = 0b1000 from Q)"""
    lads, mem = ladders(system)
    if not mem or not lads:
        return [([], lambda e: "false")]
    Q = (mem[0]["x"], mem[0]["y"])
    return [(mem[0]["gates"], lambda e: on_curve(e, *pt(e, *Q)))] + ladder_conjs(lads[0], Q, const_bits_be(8), Pc)


def S_assign_cofactor(e, I, O):
    return run_conjs(e, cofactor_conjs(e.s, (e.s.ins[0], e.s.ins[1])))


def S_pfc_cofactor(e, I, O):
    return run_conjs(e, cofactor_conjs(e.s, (e.s.outs[0], e.s.outs[1])), [AND(eq(O[0], I[0]), eq(O[1], I[1]))])


# ---- determinism (2-safety) -----------------------------------------------------------------------------

def _is_nonresidue(v):
    return pow(v % P, (P - 1) // 2, P) == P - 1


def pivot(e, poly, ucell, tag, full=True):
    """Row linear in its output cell u: poly = u * D + R. Returns dict(u, D, pd, R, ...) with D, R definitional
    atoms (D == sum_j k_j m_j + k_0, R == the rest of the row), pd = u (*) D, and (full=True) asserts
      (A) distributivity        pd == sum_j k_j u (*) m_j + k_0 u      (ring axiom instance)
      (B) the row in pivot form pd + R == 0                            (the row itself, rewritten with (A); the
                                                                        system's monomials u*m_j and u (*) m_j are the
                                                                        same multiset of cells)
    sq: None, or the premise under which D != 0 follows from the quadratic-character lemma (then asserted).
    full=False (the full encoding, where only `D != 0` is needed as a hypothesis): D is built only when the
    quadratic-character lemma does not apply."""
    u = e.v(ucell)
    if isinstance(u, int):
        return None
    ts = _terms(e, poly)
    dpart, rpart, k0, r0 = [], [], 0, 0
    for k, atoms in ts:
        n = atoms.count(u)
        if n == 0:
            if atoms:
                rpart.append((k, atoms))
            else:
                r0 = (r0 + k) % e.P
            continue
        if n > 1:
            raise LayoutError(f"{tag}: output cell occurs non-linearly")
        rest = [a for a in atoms if a != u]
        if not rest:
            k0 = (k0 + k) % e.P
        else:
            dpart.append((k, rest))
    if not dpart:
        return None            # u has a constant coefficient: the row determines it linearly
    # quadratic-character lemma: D = k0 + k*m with m a square (even multiset once auxiliary cells are replaced
    # by their defining monomials) and -k0/k a non-residue  =>  D != 0
    sq = None
    if len(dpart) == 1 and k0:
        k, rest = dpart[0]
        ms = [b for a in rest for b in _mset(e, a)]
        prem = []
        changed = True
        while changed:
            changed = False
            for c, mc in aux_defs(e):
                if c in ms and e.monoatom.get(mc) is not None:
                    ms.remove(c)
                    ms += list(mc)
                    prem.append(f"(= {c} {e.monoatom[mc]})")
                    changed = True
        nr = (-k0 * pow(k, -1, e.P)) % e.P
        if all(v % 2 == 0 for v in Counter(ms).values()) and _is_nonresidue(nr):
            sq = AND(*prem) if prem else "true"
            NONRES_USED.add(nr)
    if not full and sq is not None:
        return dict(u=u, D=None, sq=sq, tag=tag)
    mons = [(k, M(e, *rest)) for k, rest in dpart]
    Dv = e.define_mod(mons, k0)
    if isinstance(Dv, int):
        return None
    if sq is not None:
        e.lines.append(f"(assert (=> {sq} (not (= {Dv} 0))))")
    if not full:
        return dict(u=u, D=Dv, sq=sq, tag=tag)
    rmons = [(k, M(e, *atoms)) for k, atoms in rpart]
    Rv = e.define_mod(rmons, r0)
    pd = e.fmul(u, Dv)
    e.modeq([(-1, pd)] + [(csmt.sym(k, e.P), M(e, u, m)) for k, m in mons] + ([(csmt.sym(k0, e.P), u)] if k0 else []), 0)   # (A)
    if isinstance(Rv, int):
        e.modeq([(1, pd)], csmt.sym(Rv, e.P))                                                                              # (B)
    else:
        e.modeq([(1, pd), (1, Rv)], 0)
    return dict(u=u, D=Dv, pd=pd, R=Rv, sq=sq, tag=tag, dm=mons, k0=k0, rm=rmons, r0=r0)


def pair_lemmas(e, x, y):
    """two pivot forms of the same row shape (run 1 / run 2): congruence of the definitional atoms and
    cancellation. Each is valid in any field."""
    same = lambda a, b: [k for k, _ in a] == [k for k, _ in b]
    if same(x["dm"], y["dm"]) and x["k0"] == y["k0"]:
        prem = AND(*[eq(m1, m2) for (_, m1), (_, m2) in zip(x["dm"], y["dm"]) if m1 != m2])
        e.lines.append(f"(assert (=> {prem} (= {x['D']} {y['D']})))")
    if same(x["rm"], y["rm"]) and x["r0"] == y["r0"] and not isinstance(x["R"], int) and not isinstance(y["R"], int):
        prem = AND(*[eq(m1, m2) for (_, m1), (_, m2) in zip(x["rm"], y["rm"]) if m1 != m2])
        e.lines.append(f"(assert (=> {prem} (= {x['R']} {y['R']})))")
    e.lines.append(f"(assert (=> (and (not (= {x['D']} 0)) (= {x['D']} {y['D']}) (= {x['pd']} {y['pd']})) (= {x['u']} {y['u']})))")
    e.lines.append(f"(assert (=> (= {A(x['R'])} {A(y['R'])}) (= {x['pd']} {y['pd']})))")     # by (B) on both sides


def step_conj(ra, rb, kind, tag):
    """2-safety step of one row shape, laid out at ra (run 1) and rb (run 2): equal row inputs and non-zero
    pivot coefficients imply equal row outputs. (gates, build)"""
    if kind == "ca":
        ins, outs, ga, gb = ("xq", "yq", "xs", "ys", "b"), ("xr", "yr"), ra["gates"], rb["gates"]
    else:
        ra, rb = ra["dbl"], rb["dbl"]
        ins, outs, ga, gb = ("xp", "yp"), ("xq", "yq"), ra["gates"], rb["gates"]

    def build(e):
        full = e is not getattr(e, "_ed_main", None)
        nz = []
        for j, out in enumerate(outs):
            pa = [pivot(e, g["poly"], ra[out], f"{tag} run 1 eq {j}", full) for g in ga if g["gate"].endswith(f":{j}")]
            pb = [pivot(e, g["poly"], rb[out], f"{tag} run 2 eq {j}", full) for g in gb if g["gate"].endswith(f":{j}")]
            if len(pa) != 1 or len(pb) != 1:
                raise LayoutError(f"{tag}: no output equation {j}")
            for p_ in (pa[0], pb[0]):
                if p_ is not None and p_["sq"] is None:
                    nz.append(ne(p_["D"], 0))
            if full and pa[0] is not None and pb[0] is not None:
                pair_lemmas(e, pa[0], pb[0])
        e.__dict__.setdefault("_ed_nz", []).extend(nz)
        hyp = [eq(e.v(ra[c]), e.v(rb[c])) for c in ins if e.v(ra[c]) != e.v(rb[c])]
        return IMP(AND(*hyp, *nz), AND(*[eq(e.v(ra[o]), e.v(rb[o])) for o in outs]))
    return (ga + gb, build)


def S_det(pairs, nout=2):
    """the operation was laid out twice on the same assigned inputs: equal results, on the set of accepted
    assignments where no conditional-add denominator vanishes (see run.outside). `pairs`: [(ladder index of
    run 1, ladder index of run 2)]"""
    def spec(e, I, O):
        lads, _ = ladders(e.s)
        e._ed_main = e
        e._ed_nz = []
        cut = Cut(e)
        for (a, b) in pairs:
            if len(lads[a]["rows"]) != len(lads[b]["rows"]):
                return "false"
            for i, (ra, rb) in enumerate(zip(lads[a]["rows"], lads[b]["rows"])):
                if (ra["dbl"] is None) != (rb["dbl"] is None):
                    return "false"
                cut.local(*step_conj(ra, rb, "ca", f"ladders {a}/{b} row {i} conditional add"))
                if ra["dbl"]:
                    cut.local(*step_conj(ra, rb, "db", f"ladders {a}/{b} row {i} double"))
        NZ = AND(*sorted(set(e._ed_nz)))
        goal = AND(*[eq(O[j], O[nout + j]) for j in range(nout)])
        if NZ != "true" and not NO_CUT[0]:
            # vacuity of the hypothesis: the honest run (accepted by the real MockProver) has no vanishing denominator
            hon = e.s.honest_assign()
            exact = e.exact_atoms({n: hon.get(c, 0) for c, n in e.vars.items()})
            r = solvers.solve(e.text([f"(assert (= {n} {v}))" for n, v in exact.items()] + [f"(assert {NZ})"]), timeout=30)
            if r.status != "sat":
                return "false"       # decide reports the failed vacuity twin as INCONCLUSIVE
        return IMP(NZ, goal)
    return spec


# ---- Euler's criterion on ground terms ---------------------------------------------------------------

def nonresidue_obligation(run, values, tag="C06/M"):
    """v^((p-1)/2) = p - 1 (mod p) for the constants the quadratic-character lemma was instantiated with:
    a square-and-multiply chain of ground terms, evaluated by the solvers (variable-free)."""
    for v in sorted(values):
        ob = core.Ob(f"edladder/nonresidue[{hex(v)[:14]}..]", "C", "Euler's criterion: the constant used by the quadratic-character lemma is a quadratic non-residue of the base field",
                     functions=["midnight_curves::JubjubExtended (EdwardsCurve::D)"], bound="ground", key="edladder/nonresidue")
        ob.nontrivial = False
        run.add(ob)
        ex = (P - 1) // 2
        lines = ["(set-logic ALL)", f"(define-fun x0 () Int {v % P})"]
        acc = "x0"
        n = 0
        for bit in bin(ex)[3:]:
            n += 1
            lines.append(f"(define-fun s{n} () Int (mod (* {acc} {acc}) {P}))")
            acc = f"s{n}"
            if bit == "1":
                n += 1
                lines.append(f"(define-fun s{n} () Int (mod (* {acc} x0) {P}))")
                acc = f"s{n}"
        r = solvers.solve("\n".join(lines + [f"(assert (not (= {acc} {P - 1})))"]), timeout=60)
        r2 = solvers.solve("\n".join(lines + [f"(assert (= {acc} {P - 1}))"]), timeout=60)
        ob.queries = 2
        ob.solver_s = r.time_s + r2.time_s
        if r.status == "unsat" and r2.status == "sat":
            ob.vacuity = True
            ob.set(core.HOLDS, solver=r.solver)
        elif r.status == "sat":
            ob.set(core.INCONCLUSIVE, "the constant is a quadratic residue: the quadratic-character lemma used by the determinism obligations is not justified")
        else:
            ob.set(core.INCONCLUSIVE, f"ground evaluation came back {r.status}/{r2.status}")
        run.log(f"{ob.status:12s} {ob.id} {ob.solver or ''} {ob.solver_s:.1f}s {ob.detail[:120]}")


# ---- forged assignments for obligations the deciding query left open -----------------------------------------
# When a defining constraint is missing, the deciding query `Sys and not Spec` has real models, but the solvers return
# models of the ABSTRACTION (uninterpreted products) and the engine's refinement (8 rounds) does not converge on a
# ladder. This search makes the model exact row by row: input cells keep their honest values; cells that a row
# determines (the row is linear in its only unknown cell) are computed exactly; where several cells of a row are
# still unknown the SOLVER picks them from that row's sub-system with every known cell pinned - once with the extra
# demand "differ from the honest run", afterwards preferring the honest values. The completed assignment is
# accepted only if (1) every extracted constraint holds exactly, (2) the solver confirms on ground terms that the
# specification is violated, (3) the real MockProver accepts it. It can only FIND violations.

NO_CUT = [False]


def _row_cls(system, poly):
    out = []
    for ch, cells in poly:
        k = int(ch, 16) % system.P
        cl = []
        for c in cells:
            r = system.cls(c)
            if r in system.const:
                k = k * system.const[r] % system.P
            else:
                cl.append(r)
        if k:
            out.append((k, cl))
    return out


def _solve_unit(Pm, terms, known, u):
    """terms linear in u, every other class known: value of u, 'free' (0*u = 0), or None (inconsistent / non-linear)"""
    c = r = 0
    for k, cl in terms:
        n = cl.count(u)
        if n > 1:
            return "free"          # non-linear in u: not determined by unit propagation (checked once u is known)
        v = k
        for x in cl:
            if x != u:
                v = v * known[x] % Pm
        if n:
            c = (c + v) % Pm
        else:
            r = (r + v) % Pm
    if c == 0:
        return "free" if r == 0 else None
    return (-r * pow(c, -1, Pm)) % Pm


def _propagate(Pm, rows, known):
    """unit propagation (a row that is linear in its only unknown cell determines it); False on a contradiction"""
    progress = True
    while progress:
        progress = False
        for g, terms in rows:
            unk = {x for _, cl in terms for x in cl if x not in known}
            if len(unk) > 1:
                continue
            if not unk:
                if sum(k * _prod(Pm, [known[x] for x in cl]) for k, cl in terms) % Pm:
                    return False
                continue
            u = next(iter(unk))
            v = _solve_unit(Pm, terms, known, u)
            if v is None:
                return False
            if v == "free":
                continue
            known[u] = v
            progress = True
    return True


def _prod(Pm, vs):
    r = 1
    for v in vs:
        r = r * v % Pm
    return r


def forge_assignment(system, extra, log=lambda m: None, max_frontiers=400, deviate_at=0, pick=0, pin_inputs=True):
    """class -> value, deviating from the honest run at the `deviate_at`-th frontier and honest wherever the honest
    values remain consistent, satisfying every gate row exactly; None when that does not work out; "exhausted"
    when there are fewer frontiers. A frontier is the block of gates on the first circuit row that still has
    unknown cells after unit propagation: there the SOLVER proposes a value for one free cell (query: the block's
    sub-system, every known cell pinned, `cell != honest value`), exact propagation completes the block."""
    Pm = system.P
    honest = system.honest_assign()
    rows = [(g, _row_cls(system, g["poly"])) for g in system.d["gates"]]
    known = {system.cls(c): honest[system.cls(c)] for c in system.ins if system.cls(c) not in system.const} if pin_inputs else {}
    deviated = False
    nfront = -1
    typed = {system.cls(c) for lk in system.d["lookups"] for inp in lk["inputs"] for p_ in inp["exprs"] for _, cs in p_ for c in cs}
    for _ in range(max_frontiers):
        if _propagate(Pm, rows, known) is False:
            return None
        todo = [g["row"] for g, t in rows if any(x not in known for _, cl in t for x in cl)]
        if not todo:
            break
        r0 = min(todo)
        U = {x for g, t in rows if g["row"] == r0 for _, cl in t for x in cl if x not in known}
        G = [(g, t) for g, t in rows if {x for _, cl in t for x in cl if x not in known} <= U and any(x in U for _, cl in t for x in cl)]
        nfront += 1
        want_dev = (not deviated) and nfront == deviate_at

        def trial(pairs):
            k2 = dict(known)
            k2.update(pairs)
            if _propagate(Pm, G, k2) is False:
                return None
            return k2

        vals = None
        # cells that occur in lookups are typed (bits, bytes, limbs: range-checked and usually determined by a
        # decomposition elsewhere): they take their honest values first and are never the deviating cell
        base = dict(known)
        for u2 in sorted(U & typed):
            k3 = dict(base)
            k3[u2] = honest.get(u2, 0)
            if _propagate(Pm, G, k3) is not False:
                base = k3
        cands = sorted(x for x in U if x not in base)

        def fill(k2):
            """remaining degrees of freedom of the block take their honest values (skipping a cell whose honest
            value contradicts what is already fixed)"""
            for u2 in cands:
                if all(x in k2 for x in U):
                    break
                if u2 in k2:
                    continue
                k3 = dict(k2)
                k3[u2] = honest.get(u2, 0)
                if _propagate(Pm, G, k3) is not False:
                    k2 = k3
            return k2 if all(x in k2 for x in U) and _propagate(Pm, G, k2) is not False else None
        if want_dev:
            sugg = _suggest(system, extra, [g for g, _ in G], base, cands, honest)
            nok = 0
            for u, v in sugg:
                k2 = dict(base)
                k2[u] = v
                k2 = fill(k2) if _propagate(Pm, G, k2) is not False else None
                if k2 is not None:
                    nok += 1
                    if nok <= pick:
                        continue
                    vals = {x: k2[x] for x in U}
                    log(f"forged cells at row {r0}: the solver proposed a value for 1 of {len(U)} undetermined cells, exact propagation completed the block")
                    deviated = True
                    break
            if vals is None:
                return "no-more-picks"
        else:
            k2 = fill(dict(base))
            if k2 is None:
                return None
            vals = {x: k2[x] for x in U}
        known.update(vals)
    if not deviated:
        return "exhausted" if nfront < deviate_at else None
    for c in system.used_classes():
        known.setdefault(c, honest.get(c, 0))
    return known


def _suggest(system, extra, G, known, cands, honest, timeout=10, limit=6):
    """[(cell class, value != honest)] proposed by the solver from the block's sub-system with the known cells pinned
    (the abstraction may propose values that exact propagation then refutes: they are only candidates)"""
    d = dict(system.d)
    d["gates"] = list(G)
    d["lookups"] = []
    sub = csmt.System(d, system.P)
    es = csmt.Enc(sub)
    es.extra = extra
    es.encode(False)
    pins = {es.vars[c]: v for c, v in known.items() if c in es.vars}
    for it in es.order:       # products of pinned atoms are constants
        if it[0] == "mul" and all(isinstance(x, int) or x in pins for x in (it[2], it[3])):
            va, vb = (x if isinstance(x, int) else pins[x] for x in (it[2], it[3]))
            pins[it[1]] = va * vb % system.P
    base = [f"(assert (= {n} {v}))" for n, v in pins.items()]
    out = []
    for u in cands:
        if u not in es.vars or len(out) >= limit:
            continue
        n = es.vars[u]
        r = solvers.solve(es.text(base + [f"(assert (not (= {n} {honest.get(u, 0)})))"]), timeout=timeout, get_values=[n])
        if r.status == "sat" and n in r.model and r.model[n] % system.P != honest.get(u, 0):
            out.append((u, r.model[n] % system.P))
    return out


def forge(run, ob, family, ent, timeout=30):
    """try to turn an undecided ladder obligation into a replayed VIOLATION"""
    from . import cengine
    t0 = time.time()
    system = cengine.extract(family, ent["op"], ent["params"], ent["ins"], ent["k"])
    if not system.d["honest_verify"]:
        return False
    for pin_inputs in (True, False):
        k, pick = 0, 0
        while k < 24 and time.time() - t0 < 4 * timeout:
            cls_assign = forge_assignment(system, system.d.get("extra", {}), log=lambda m: run.log(f"  {ob.id}: {m}"), deviate_at=k, pick=pick, pin_inputs=pin_inputs)
            if cls_assign == "exhausted":
                break
            if cls_assign == "no-more-picks":
                k, pick = k + 1, 0
                continue
            pick += 1
            if cls_assign is None or system.check_exact(cls_assign):
                continue
            if _forge_finish(run, ob, family, ent, system, cls_assign, timeout, t0):
                return True
    return False


def _forge_finish(run, ob, family, ent, system, cls_assign, timeout, t0):
    from . import cengine
    e = csmt.Enc(system)
    e.extra = system.d.get("extra", {})
    e.encode(False)
    Iat = [e.v(c) for c in system.ins]
    Oat = [e.v(c) for c in system.outs]
    NO_CUT[0] = True
    try:
        spec_smt = ent["spec"](e, Iat, Oat)
    finally:
        NO_CUT[0] = False
    assign = {n: cls_assign.get(c, 0) for c, n in e.vars.items()}
    exact = e.exact_atoms(assign)
    pins = [f"(assert (= {n} {v}))" for n, v in exact.items()]
    r2 = solvers.solve(e.text(pins + [f"(assert (not {spec_smt}))"]), timeout=timeout)
    ob.queries += 1
    if r2.status != "sat":
        return False
    ov = cengine.overrides_from_model(system, e, assign)
    res, err = cengine.replay(family, ent["op"], ent["params"], ent["ins"], ent["k"], ov)
    if not (res and res.get("accepted")):
        return False
    iv = {c: hex(cls_assign.get(system.cls(c), system.const.get(system.cls(c), 0))) for c in system.ins + system.outs}
    path = run.write_replay(ob, dict(kind="forged-assignment", cx=cengine.cx_args(family, ent["op"], ent["params"], ent["ins"], ent["k"]),
                                     overrides=ov, instance=iv,
                                     note="real MockProver::verify() accepts this assignment although the (inputs, outputs) on the instance column violate the operation's specification (assignment completed row by row from solver-chosen cells, edladder.forge)"))
    ob.set(core.VIOLATION, f"{ent['op']} {ent['params']}: the real MockProver accepts instance {iv} which violates the specification", solver=r2.solver, replay=path)
    ob.solver_s += time.time() - t0
    return True
