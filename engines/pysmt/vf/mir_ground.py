"""Engine M: ground (variable-free) obligations for the published constants of a field type.

The VALUES come from the current tree: from MIR const bodies (raw Montgomery limbs, evaluated by the MIR
interpreter) and from the public ff::PrimeField API through engines/mirreplay/field-consts (canonical
values). Nothing is hard-coded here. Every equation is sent to the solvers as a ground SMT query (squarings
and square-and-multiply chains unrolled into define-funs) so that the verdict is the solver's."""
import json, os, subprocess, sys, time

from vf import core, solvers

WORKER = r'''
import sys, json, sympy
n = int(sys.argv[1])
f1 = sympy.factorint(n, limit=1 << 18)
def show(f, stage):
    print(json.dumps({"stage": stage, "factors": {str(k): v for k, v in f.items()},
                      "prime": {str(k): bool(sympy.isprime(k)) for k in f}}), flush=True)
show(f1, 1)
out = {}
for k, v in sorted(f1.items()):
    if sympy.isprime(k):
        out[k] = out.get(k, 0) + v
    else:
        for kk, vv in sympy.factorint(k).items():
            out[kk] = out.get(kk, 0) + vv * v
show(out, 2)
'''


def factor(n, cap_s):
    """-> (dict prime->exp of the PRIME factors found, composite cofactor (1 when complete), seconds)"""
    t0 = time.time()
    p = subprocess.Popen([sys.executable, "-c", WORKER, str(n)], stdout=subprocess.PIPE, stderr=subprocess.PIPE, text=True)
    try:
        out, _ = p.communicate(timeout=cap_s)
    except subprocess.TimeoutExpired:
        p.kill()
        out, _ = p.communicate()
    best = None
    for line in out.split("\n"):
        line = line.strip()
        if line.startswith("{"):
            try:
                best = json.loads(line)
            except ValueError:
                pass
    primes, cof = {}, 1
    if best is None:
        return {}, n, time.time() - t0
    for k, v in best["factors"].items():
        if best["prime"].get(k):
            primes[int(k)] = v
        else:
            cof *= int(k) ** v
    return primes, cof, time.time() - t0


def val_of_repr(hexstr, order):
    b = bytes.fromhex(hexstr)
    return int.from_bytes(b, "little" if order == "le" else "big")


def parse_modulus(s):
    s = s.strip()
    if s.lower().startswith("0x"):
        s = s[2:]
    return int(s, 16)


# ------------------------------------------------------------------------------------------------
# SMT builders (ground)
# ------------------------------------------------------------------------------------------------
class G:
    def __init__(self):
        self.lines = ["(set-logic ALL)"]
        self.n = 0

    def define(self, expr):
        self.n += 1
        nm = f"g{self.n}"
        self.lines.append(f"(define-fun {nm} () Int {expr})")
        return nm

    def mulmod(self, a, b, p):
        return self.define(f"(mod (* {a} {b}) {p})")

    def pow(self, base, e, p):
        """square-and-multiply, unrolled"""
        if e == 0:
            return "1"
        acc = base
        for bit in bin(e)[3:]:
            acc = self.mulmod(acc, acc, p)
            if bit == "1":
                acc = self.mulmod(acc, base, p)
        return acc

    def query(self, claim):
        return "\n".join(self.lines) + f"\n(assert (not {claim}))\n"


def py_pow(b, e, p):
    return pow(b, e, p)


def equations(rec, primes, cofactor):
    """rec: dict with p, S, NUM_BITS, CAPACITY, canonical values. yields (name, what, smt_query, python_truth)"""
    p = rec["p"]
    S = rec["S"]
    out = []

    def add(name, what, g, claim, truth):
        out.append((name, what, g.query(claim), bool(truth)))

    g = G()
    add("NUM_BITS", f"2^(NUM_BITS-1) <= p < 2^NUM_BITS and CAPACITY = NUM_BITS-1 (NUM_BITS={rec['NUM_BITS']}, "
        f"CAPACITY={rec['CAPACITY']})", g,
        f"(and (<= {1 << (rec['NUM_BITS'] - 1)} {p}) (< {p} {1 << rec['NUM_BITS']}) (= {rec['CAPACITY']} (- {rec['NUM_BITS']} 1)))",
        (1 << (rec["NUM_BITS"] - 1)) <= p < (1 << rec["NUM_BITS"]) and rec["CAPACITY"] == rec["NUM_BITS"] - 1)
    g = G()
    add("S", f"p-1 = 2^S * t with t odd (S={S})", g,
        f"(and (= (mod (- {p} 1) {1 << S}) 0) (= (mod (div (- {p} 1) {1 << S}) 2) 1))",
        (p - 1) % (1 << S) == 0 and ((p - 1) >> S) % 2 == 1)
    if "ONE" in rec:
        g = G()
        add("ONE", "ONE = 1, ZERO = 0 (canonical values)", g, f"(and (= {rec['ONE']} 1) (= {rec.get('ZERO', 0)} 0))",
            rec["ONE"] == 1 and rec.get("ZERO", 0) == 0)
    if "TWO_INV" in rec:
        g = G()
        add("TWO_INV", "2 * TWO_INV = 1 (mod p), TWO_INV < p", g,
            f"(and (< {rec['TWO_INV']} {p}) (= (mod (* 2 {rec['TWO_INV']}) {p}) 1))",
            rec["TWO_INV"] < p and 2 * rec["TWO_INV"] % p == 1)
    if "ROOT_OF_UNITY" in rec:
        w = rec["ROOT_OF_UNITY"]
        g = G()
        hi = g.pow(str(w), 1 << S, p)
        if S >= 1:
            g2 = G()
            lo = g2.pow(str(w), 1 << (S - 1), p)
            add("ROOT_OF_UNITY/primitive", f"ROOT_OF_UNITY^(2^(S-1)) != 1 (S={S})", g2, f"(not (= {lo} 1))",
                pow(w, 1 << (S - 1), p) != 1)
        add("ROOT_OF_UNITY/order", f"ROOT_OF_UNITY^(2^S) = 1 (S={S} squarings unrolled)", g, f"(= {hi} 1)",
            pow(w, 1 << S, p) == 1)
        if "ROOT_OF_UNITY_INV" in rec:
            g = G()
            add("ROOT_OF_UNITY_INV", "ROOT_OF_UNITY * ROOT_OF_UNITY_INV = 1 (mod p)", g,
                f"(= (mod (* {w} {rec['ROOT_OF_UNITY_INV']}) {p}) 1)", w * rec["ROOT_OF_UNITY_INV"] % p == 1)
    if "MULTIPLICATIVE_GENERATOR" in rec:
        gen = rec["MULTIPLICATIVE_GENERATOR"]
        if "DELTA" in rec:
            g = G()
            d = g.pow(str(gen), 1 << S, p)
            add("DELTA", f"DELTA = MULTIPLICATIVE_GENERATOR^(2^S) (S={S})", g, f"(= {d} {rec['DELTA']})",
                pow(gen, 1 << S, p) == rec["DELTA"])
        g = G()
        prod = 1
        for q, e in primes.items():
            prod *= q ** e
        add("GENERATOR/factorisation", f"product of the factors used = p-1 (cofactor {'1' if cofactor == 1 else 'COMPOSITE, ' + str(cofactor.bit_length()) + ' bits'})",
            g, "(= (* " + " ".join(str(q ** e) for q, e in primes.items()) + f" {cofactor} 1) (- {p} 1))",
            prod * cofactor == p - 1)
        g = G()
        f = g.pow(str(gen), p - 1, p)
        add("GENERATOR/fermat", "MULTIPLICATIVE_GENERATOR^(p-1) = 1 and generator != 0", g,
            f"(and (= {f} 1) (not (= {gen} 0)))", pow(gen, p - 1, p) == 1 and gen % p != 0)
        for q in sorted(primes):
            g = G()
            t = g.pow(str(gen), (p - 1) // q, p)
            add(f"GENERATOR/q={q if q < 10 ** 12 else str(q)[:10] + '..(' + str(q.bit_length()) + ' bits)'}",
                f"MULTIPLICATIVE_GENERATOR^((p-1)/q) != 1 for the prime factor q = {q}", g, f"(not (= {t} 1))",
                pow(gen, (p - 1) // q, p) != 1)
    if "ZETA" in rec:
        z = rec["ZETA"]
        g = G()
        z3 = g.mulmod(g.mulmod(str(z), str(z), p), str(z), p)
        add("ZETA", "ZETA^3 = 1 and ZETA != 1 (primitive cube root of unity)", g, f"(and (= {z3} 1) (not (= {z} 1)) (< {z} {p}))",
            pow(z, 3, p) == 1 and z != 1 and z < p)
    return out


def montgomery_equations(p, n, raw, inv=None):
    """raw: dict R/R2/R3 -> raw limb integers from MIR"""
    out = []
    Rm = 1 << (64 * n)
    for k, e in (("R", 1), ("R2", 2), ("R3", 3)):
        if k in raw:
            g = G()
            # 2^(64 n e) mod p, evaluated by the solver
            claim = f"(= {raw[k]} (mod {Rm ** e} {p}))"
            out.append((k, f"{k} = 2^{64 * n * e} mod p (raw limbs from the MIR const body)", g.query(claim),
                        raw[k] == pow(Rm, e, p)))
    if inv is not None:
        g = G()
        out.append(("INV", "INV * p = -1 (mod 2^64)", g.query(f"(= (mod (* {inv} {p}) {1 << 64}) {(1 << 64) - 1})"),
                    inv * p % (1 << 64) == (1 << 64) - 1))
    return out
