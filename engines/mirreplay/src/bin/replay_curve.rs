//! replay-curve <g1|g2> <op> <hex field elements...>
//!
//! Native replay of coordinate-helper counterexamples (engine M, C11). Field elements are canonical
//! big-endian hex integers of the prime field Fp; for g2 every element is embedded as Fp2 { c0 = v, c1 = 0 }.
//! Raw projective points are built through the public `AsMut<blst_p1/p2>` access (no curve check), and
//! blst's own conversion to affine (`G1Affine::from(&p)` = blst_p1_to_affine) is the ground truth for "the
//! affine point that a raw triple denotes".
//!
//!   jacobian_coordinates X Y Z      -> prints whether (jx/jz^2, jy/jz^3) equals blst's affine point of (X,Y,Z)
//!   jacobian_coordinates_of_point k -> the same check on the genuine curve point k*G as blst returns it (z != 1)
//!   new_jacobian x y z              -> prints is_some and, when some, whether blst's affine point of the
//!                                      result equals (x/z^2, y/z^3)
//!   new_jacobian_of_point k z       -> Q = k*G; hands the textbook Jacobian triple (qx z^2, qy z^3, z) of Q to
//!                                      new_jacobian; prints is_some and whether the result equals Q
//!   ct_eq X1 Y1 Z1 X2 Y2 Z2         -> prints ConstantTimeEq::ct_eq and blst's own equality (PartialEq)
use ff::Field;
use group::Group;
use midnight_curves::bls12_381::Fp2;
use midnight_curves::{CurveExt, Fp, Fq, G1Affine, G1Projective, G2Affine, G2Projective};
use subtle::ConstantTimeEq;

fn fp(h: &str) -> Fp {
    let h = h.trim_start_matches("0x");
    let padded = format!("{:0>96}", h);
    let mut le = [0u8; 48];
    for i in 0..48 {
        le[47 - i] = u8::from_str_radix(&padded[2 * i..2 * i + 2], 16).expect("hex");
    }
    Option::<Fp>::from(Fp::from_bytes_le(&le)).expect("canonical Fp")
}

fn fp2(h: &str) -> Fp2 {
    Fp2::new(fp(h), Fp::ZERO)
}

fn hx(x: &Fp) -> String {
    let b = x.to_bytes_le();
    b.iter().rev().map(|v| format!("{:02x}", v)).collect()
}

fn hx2(x: &Fp2) -> String {
    format!("({},{})", hx(&x.c0()), hx(&x.c1()))
}

macro_rules! curve_ops {
    ($proj:ty, $aff:ty, $raw:ty, $f:ident, $h:ident, $F:ty, $op:expr, $a:expr) => {{
        let a = $a;
        let raw_point = |x: $F, y: $F, z: $F| -> $proj {
            let mut p = <$proj>::identity();
            let r: &mut $raw = p.as_mut();
            r.x = x.into();
            r.y = y.into();
            r.z = z.into();
            p
        };
        match $op {
            "jacobian_coordinates" => {
                let (x, y, z) = ($f(&a[0]), $f(&a[1]), $f(&a[2]));
                let p = raw_point(x, y, z);
                let (jx, jy, jz) = p.jacobian_coordinates();
                let aff = <$aff>::from(&p);
                let zi = Option::<$F>::from(jz.invert());
                let ok = match zi {
                    Some(zi) => aff.x() == jx * zi.square() && aff.y() == jy * zi.square() * zi,
                    None => false,
                };
                println!("jx={} jy={} jz={}", $h(&jx), $h(&jy), $h(&jz));
                println!("blst_affine=({}, {})", $h(&aff.x()), $h(&aff.y()));
                println!("jacobian_consistent={}", ok);
            }
            "jacobian_coordinates_of_point" => {
                // a genuine curve point in a non-normalised representation: k*G as blst returns it
                let k = u64::from_str_radix(a[0].trim_start_matches("0x"), 16).expect("k");
                let p = <$proj>::generator() * Fq::from(k);
                let (jx, jy, jz) = p.jacobian_coordinates();
                let aff = <$aff>::from(&p);
                let zi = Option::<$F>::from(jz.invert());
                let ok = match zi {
                    Some(zi) => aff.x() == jx * zi.square() && aff.y() == jy * zi.square() * zi,
                    None => false,
                };
                println!("z_is_one={}", p.z() == <$F>::ONE);
                println!("jacobian_consistent={}", ok);
            }
            "new_jacobian" => {
                let (x, y, z) = ($f(&a[0]), $f(&a[1]), $f(&a[2]));
                let r = <$proj>::new_jacobian(x, y, z);
                let some = bool::from(r.is_some());
                println!("is_some={}", some);
                if some {
                    let p = r.unwrap();
                    let aff = <$aff>::from(&p);
                    let zi = z.invert().unwrap();
                    let ok = aff.x() == x * zi.square() && aff.y() == y * zi.square() * zi;
                    println!("affine_matches={}", ok);
                }
            }
            "new_jacobian_of_point" => {
                let k = u64::from_str_radix(a[0].trim_start_matches("0x"), 16).expect("k");
                let z = $f(&a[1]);
                let q = <$proj>::generator() * Fq::from(k);
                let qa = <$aff>::from(&q);
                let (x, y) = (qa.x() * z.square(), qa.y() * z.square() * z);
                let on_jacobian_curve = y.square() == x.square() * x + <$proj as CurveExt>::b() * z.square().square() * z.square();
                let r = <$proj>::new_jacobian(x, y, z);
                let some = bool::from(r.is_some());
                println!("input_satisfies_jacobian_equation={}", on_jacobian_curve);
                println!("is_some={}", some);
                println!("equals_point={}", if some { r.unwrap() == q } else { false });
            }
            "ct_eq" => {
                let p = raw_point($f(&a[0]), $f(&a[1]), $f(&a[2]));
                let q = raw_point($f(&a[3]), $f(&a[4]), $f(&a[5]));
                println!("ct_eq={}", bool::from(p.ct_eq(&q)));
                println!("blst_is_equal={}", p == q);
                let (pa, qa) = (<$aff>::from(&p), <$aff>::from(&q));
                println!("affine_equal={}", pa.x() == qa.x() && pa.y() == qa.y());
            }
            o => println!("err unknown op {}", o),
        }
    }};
}

fn main() {
    let args: Vec<String> = std::env::args().skip(1).collect();
    if args.len() < 2 {
        println!("err usage: <g1|g2> <op> <hex...>");
        return;
    }
    let rest: Vec<String> = args[2..].to_vec();
    let r = std::panic::catch_unwind(|| match args[0].as_str() {
        "g1" => curve_ops!(G1Projective, G1Affine, blst::blst_p1, fp, hx, Fp, args[1].as_str(), rest),
        "g2" => curve_ops!(G2Projective, G2Affine, blst::blst_p2, fp2, hx2, Fp2, args[1].as_str(), rest),
        t => println!("err unknown curve {}", t),
    });
    if r.is_err() {
        println!("panic");
    }
}
