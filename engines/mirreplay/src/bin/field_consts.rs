fn main(){}
