//! field-consts: prints, as one JSON object per line, every constant that the field types of
//! midnight-curves publish through the ff::PrimeField / WithSmallOrderMulGroup<3> API of the CURRENT tree.
//! Element values are the bytes of `to_repr()` in hex plus the byte order detected from `ONE.to_repr()`.
use ff::{PrimeField, WithSmallOrderMulGroup};

fn hex(b: &[u8]) -> String {
    b.iter().map(|x| format!("{:02x}", x)).collect()
}

fn common<F: PrimeField>(name: &str) -> String {
    let one = F::ONE.to_repr();
    let ob = one.as_ref();
    let order = if ob[0] == 1 { "le" } else if ob[ob.len() - 1] == 1 { "be" } else { "?" };
    let r = |x: F| hex(x.to_repr().as_ref());
    format!(
        "\"type\":\"{}\",\"order\":\"{}\",\"MODULUS\":\"{}\",\"NUM_BITS\":{},\"CAPACITY\":{},\"S\":{},\"ZERO\":\"{}\",\"ONE\":\"{}\",\"TWO_INV\":\"{}\",\"MULTIPLICATIVE_GENERATOR\":\"{}\",\"ROOT_OF_UNITY\":\"{}\",\"ROOT_OF_UNITY_INV\":\"{}\",\"DELTA\":\"{}\"",
        name, order, F::MODULUS, F::NUM_BITS, F::CAPACITY, F::S, r(F::ZERO), r(F::ONE), r(F::TWO_INV),
        r(F::MULTIPLICATIVE_GENERATOR), r(F::ROOT_OF_UNITY), r(F::ROOT_OF_UNITY_INV), r(F::DELTA)
    )
}

fn with_zeta<F: PrimeField + WithSmallOrderMulGroup<3>>(name: &str) {
    println!("{{{},\"ZETA\":\"{}\"}}", common::<F>(name), hex(F::ZETA.to_repr().as_ref()));
}

fn without_zeta<F: PrimeField>(name: &str) {
    println!("{{{}}}", common::<F>(name));
}

fn main() {
    with_zeta::<midnight_curves::Fq>("bls_fq");
    with_zeta::<midnight_curves::Fp>("bls_fp");
    without_zeta::<midnight_curves::Fr>("jubjub_fr");
    with_zeta::<midnight_curves::curve25519::Fp>("c25519_fp");
    without_zeta::<midnight_curves::curve25519::Scalar>("c25519_scalar");
    without_zeta::<midnight_curves::k256::Fp>("k256_fp");
    without_zeta::<midnight_curves::k256::Fq>("k256_fq");
    with_zeta::<midnight_curves::bn256::Fq>("bn256_fq");
    with_zeta::<midnight_curves::bn256::Fr>("bn256_fr");
}
