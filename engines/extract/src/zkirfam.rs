//! Harness for ZKIR programs (C18): the REAL off-circuit evaluation (`ZkirRelation::public_inputs`) and
//! the REAL compiled circuit (`MidnightCircuit` over the relation) of one small program.
//!
//! Input: a JSON file {"instructions": [ {op, inputs, outputs} ... ]  (zkir's own serde format),
//!                     "witness": {name: {"t": "bool"|"native"|"bytes"|"biguint", "v": "0x.."} } }.
//! Programs publish their loaded inputs first and their results afterwards, so the plain instance
//! column carries (inputs, outputs) like the other engine-C families.

use std::collections::HashMap;

use midnight_curves::Fq as F;
use midnight_proofs::{circuit::Value, dev::MockProver};
use midnight_zk_stdlib::{MidnightCircuit, Relation};
use midnight_zkir::{Instruction, IrValue, ZkirRelation};
use serde_json::{json, Value as J};

use crate::native::{f_of, parse_big};

pub fn parse_witness(w: &J) -> HashMap<&'static str, IrValue> {
    let mut out = HashMap::new();
    for (k, v) in w.as_object().expect("witness object") {
        let name: &'static str = Box::leak(k.clone().into_boxed_str());
        let t = v["t"].as_str().unwrap();
        let val = v["v"].as_str().unwrap();
        let iv: IrValue = match t {
            "bool" => (parse_big(val) == 1u8.into()).into(),
            "native" => f_of(&parse_big(val)).into(),
            "biguint" => parse_big(val).into(),
            "bytes" => {
                let h = val.trim_start_matches("0x");
                let bytes: Vec<u8> = (0..h.len() / 2).map(|i| u8::from_str_radix(&h[2 * i..2 * i + 2], 16).unwrap()).collect();
                bytes.into()
            }
            _ => panic!("unsupported witness type {t}"),
        };
        out.insert(name, iv);
    }
    out
}

pub struct ZkirRun {
    pub offcircuit_ok: bool,
    pub offcircuit_err: String,
    pub instance: Vec<F>,
    pub prover: Option<MockProver<F>>,
    pub k: u32,
    pub synth_err: String,
    pub keyview: J,
}

pub fn run(path: &str, k_override: Option<u32>) -> (ZkirRun, J) {
    let j: J = serde_json::from_str(&std::fs::read_to_string(path).unwrap()).unwrap();
    let instructions: Vec<Instruction> = serde_json::from_value(j["instructions"].clone()).expect("instructions");
    let witness = parse_witness(&j["witness"]);
    let relation = match ZkirRelation::from_instructions(&instructions) {
        Ok(r) => r,
        Err(e) => {
            return (
                ZkirRun { offcircuit_ok: false, offcircuit_err: format!("from_instructions: {e:?}"), instance: vec![], prover: None, k: 0, synth_err: String::new(), keyview: J::Null },
                json!({"family": "zkir", "rejected_at": "from_instructions", "error": format!("{e:?}")}),
            )
        }
    };
    let pis = relation.public_inputs(witness.clone());
    let (off_ok, off_err, instance_vals) = match &pis {
        Ok(p) => (true, String::new(), p.clone()),
        Err(e) => (false, format!("{e:?}"), vec![]),
    };
    let instance: Vec<F> = if off_ok { ZkirRelation::format_instance(&instance_vals).expect("format_instance") } else { vec![] };
    let circuit = MidnightCircuit::new(&relation, Value::known(instance_vals.clone()), Value::known(witness), None);
    let k = k_override.unwrap_or_else(|| circuit.min_k());
    let (prover, synth_err) = match MockProver::<F>::run(k, &circuit, vec![vec![], instance.clone()]) {
        Ok(p) => (Some(p), String::new()),
        Err(e) => (None, format!("{e:?}")),
    };
    let extra = json!({"family": "zkir", "k": k, "offcircuit_ok": off_ok, "offcircuit_err": off_err,
        "synth_err": synth_err,
        "published": instance_vals.iter().map(|(v, t)| format!("{v:?}:{t:?}")).collect::<Vec<_>>()});
    let keyview = if std::env::args().any(|a| a == "keygen=1") {
        crate::keycmp::keygen_view(k, &circuit).unwrap_or_else(|e| json!({"error": format!("{e:?}")}))
    } else {
        J::Null
    };
    (ZkirRun { offcircuit_ok: off_ok, offcircuit_err: off_err, instance, prover, k, synth_err, keyview }, extra)
}
