//! Harness circuits for the native Edwards (Jubjub) ECC chip (C06 native part, C08 point exposure).
//!
//! Points are brought in with the real `EccChip::assign` (curve-membership gate + cofactor clearing) and
//! their affine coordinates are exposed on the plain instance column; results are exposed likewise.
//! Input points are given as scalars k (the point k*G of the prime-order subgroup).

use std::cell::RefCell;

use ff::Field;
use group::Group;
use midnight_circuits::{
    ecc::{curves::EdwardsCurve, native::EccChip},
    instructions::*,
    testing_utils::FromScratch,
    types::{AssignedBit, AssignedNative, AssignedNativePoint},
};
use midnight_curves::{Fq as F, Fr as JubjubFr, JubjubExtended, JubjubSubgroup};
use midnight_proofs::{
    circuit::{Layouter, SimpleFloorPlanner, Value},
    plonk::{Circuit, ConstraintSystem, Error},
};
use num_bigint::BigUint;

use crate::native::{IoLog, Spec};

type C = JubjubExtended;
type Chip = EccChip<C>;
type Pt = AssignedNativePoint<C>;

#[derive(Clone)]
pub struct EdwardsCircuit {
    pub spec: Spec,
    pub io: IoLog,
}

pub fn curve_d_hex() -> String {
    crate::dump::hex(&<C as EdwardsCurve>::D)
}

fn scalar_of(b: &BigUint) -> JubjubFr {
    let mut acc = JubjubFr::ZERO;
    for byte in b.to_bytes_be() {
        acc = acc * JubjubFr::from(256u64) + JubjubFr::from(byte as u64);
    }
    acc
}

struct Ctx<'a> {
    spec: &'a Spec,
    io: IoLog,
    next: RefCell<usize>,
}

impl<'a> Ctx<'a> {
    fn take(&self) -> BigUint {
        let mut i = self.next.borrow_mut();
        let v = self.spec.ins.get(*i).unwrap_or_else(|| panic!("op {} needs more inputs", self.spec.op)).clone();
        *i += 1;
        v
    }
    fn expose(&self, chip: &Chip, l: &mut impl Layouter<F>, x: &AssignedNative<F>, is_in: bool) -> Result<(), Error> {
        x.value().map(|v| self.io.0.borrow_mut().push((is_in, *v)));
        chip.native_gadget().constrain_as_public_input(l, x)
    }
    fn in_point(&self, chip: &Chip, l: &mut impl Layouter<F>) -> Result<Pt, Error> {
        let k = scalar_of(&self.take());
        let p: JubjubSubgroup = JubjubSubgroup::generator() * k;
        let ap: Pt = chip.assign(l, Value::known(p))?;
        self.expose(chip, l, &chip.x_coordinate(&ap), true)?;
        self.expose(chip, l, &chip.y_coordinate(&ap), true)?;
        Ok(ap)
    }
    fn out_point(&self, chip: &Chip, l: &mut impl Layouter<F>, p: &Pt) -> Result<(), Error> {
        self.expose(chip, l, &chip.x_coordinate(p), false)?;
        self.expose(chip, l, &chip.y_coordinate(p), false)
    }
    fn in_bit(&self, chip: &Chip, l: &mut impl Layouter<F>) -> Result<AssignedBit<F>, Error> {
        let v = self.take();
        let b: AssignedBit<F> = chip.native_gadget().assign(l, Value::known(v == BigUint::from(1u8)))?;
        let n: AssignedNative<F> = b.clone().into();
        self.expose(chip, l, &n, true)?;
        Ok(b)
    }
    fn out_bit(&self, chip: &Chip, l: &mut impl Layouter<F>, b: &AssignedBit<F>) -> Result<(), Error> {
        let n: AssignedNative<F> = b.clone().into();
        self.expose(chip, l, &n, false)
    }
}

impl Circuit<F> for EdwardsCircuit {
    type Config = <Chip as FromScratch<F>>::Config;
    type FloorPlanner = SimpleFloorPlanner;
    type Params = ();
    fn without_witnesses(&self) -> Self {
        unreachable!()
    }
    fn configure(meta: &mut ConstraintSystem<F>) -> Self::Config {
        let ci = meta.instance_column();
        let i = meta.instance_column();
        <Chip as FromScratch<F>>::configure_from_scratch(meta, &[ci, i])
    }
    fn synthesize(&self, config: Self::Config, mut layouter: impl Layouter<F>) -> Result<(), Error> {
        let chip = <Chip as FromScratch<F>>::new_from_scratch(&config);
        self.io.0.borrow_mut().clear();
        let ctx = Ctx { spec: &self.spec, io: self.io.clone(), next: RefCell::new(0) };
        let l = &mut layouter;
        let s = &self.spec;
        match s.op.as_str() {
            "assign" => {
                let _p = ctx.in_point(&chip, l)?;
            }
            "add" => {
                let p = ctx.in_point(&chip, l)?;
                let q = ctx.in_point(&chip, l)?;
                let r = chip.add(l, &p, &q)?;
                ctx.out_point(&chip, l, &r)?;
            }
            "double" => {
                let p = ctx.in_point(&chip, l)?;
                let r = chip.double(l, &p)?;
                ctx.out_point(&chip, l, &r)?;
            }
            "negate" => {
                let p = ctx.in_point(&chip, l)?;
                let r = chip.negate(l, &p)?;
                ctx.out_point(&chip, l, &r)?;
            }
            "select" => {
                let c = ctx.in_bit(&chip, l)?;
                let p = ctx.in_point(&chip, l)?;
                let q = ctx.in_point(&chip, l)?;
                let r = chip.select(l, &c, &p, &q)?;
                ctx.out_point(&chip, l, &r)?;
            }
            "is_equal" => {
                let p = ctx.in_point(&chip, l)?;
                let q = ctx.in_point(&chip, l)?;
                let b = chip.is_equal(l, &p, &q)?;
                ctx.out_bit(&chip, l, &b)?;
            }
            "assert_equal" | "assert_not_equal" => {
                let p = ctx.in_point(&chip, l)?;
                let q = ctx.in_point(&chip, l)?;
                if s.op == "assert_equal" {
                    chip.assert_equal(l, &p, &q)?
                } else {
                    chip.assert_not_equal(l, &p, &q)?
                }
            }
            "point_from_coordinates" => {
                // coordinates come in as plain native cells
                let k = scalar_of(&ctx.take());
                let p: JubjubSubgroup = JubjubSubgroup::generator() * k;
                let ext: JubjubExtended = p.into();
                let (x, y) = <C as midnight_circuits::ecc::curves::CircuitCurve>::coordinates(&ext).unwrap();
                let ax: AssignedNative<F> = chip.native_gadget().assign(l, Value::known(x))?;
                let ay: AssignedNative<F> = chip.native_gadget().assign(l, Value::known(y))?;
                ctx.expose(&chip, l, &ax, true)?;
                ctx.expose(&chip, l, &ay, true)?;
                let pt = chip.point_from_coordinates(l, &ax, &ay)?;
                ctx.out_point(&chip, l, &pt)?;
            }
            "pi" => {
                // the chip's own public-input exposure of a point
                let p = ctx.in_point(&chip, l)?;
                let pis = chip.as_public_input(l, &p)?;
                for c in pis.iter() {
                    ctx.expose(&chip, l, c, false)?;
                }
            }
            // ---- ladder shapes (part C06_M, vf/edladder.py) ---------------------------------------
            // Base point: `p.free=1` brings the coordinates in as two plain public inputs through the real
            // `assign_as_public_input` (no curve constraint: the ladder rows are then the only ECC rows of
            // the circuit); otherwise through the real `assign` (membership gate + cofactor clearing).
            // `p.twice=1` runs the operation twice on the SAME assigned inputs and exposes both results
            // (2-safety product built by the real chip: any accepted assignment with different results is
            // two accepted results for one input).
            "mul_const" => {
                // mul_by_constant(c, P): the constant's bits are fixed cells; c = 8 is clear_cofactor's ladder
                let c = scalar_of(&s.p_big("c"));
                let p = ladder_base(&ctx, &chip, l, s)?;
                let n = if s.p_bool("twice") { 2 } else { 1 };
                let mut rs = vec![];
                for _ in 0..n {
                    rs.push(chip.mul_by_constant(l, c, &p)?);
                }
                for r in rs.iter() {
                    ctx.out_point(&chip, l, r)?;
                }
            }
            "mul_bytes" => {
                // a variable scalar of 8*nbytes bits, built by the real `scalar_from_le_bytes` from
                // range-checked input bytes, then `mul` / `msm` / `msm_by_bounded_scalars` (p.via)
                // (each input is a plain native cell x, exposed; the chip's own `assigned_to_le_bytes(x, 1)`
                // yields the range-checked byte, so `x < 256` is a consequence of the system)
                let nbytes = s.p_usize_or("nbytes", 1);
                let mut bytes: Vec<AssignedByte<F>> = vec![];
                for _ in 0..nbytes {
                    let v = ctx.take();
                    let b: u8 = v.to_u32_digits().first().copied().unwrap_or(0) as u8;
                    let ax: AssignedNative<F> = chip.native_gadget().assign(l, Value::known(F::from(b as u64)))?;
                    ctx.expose(&chip, l, &ax, true)?;
                    let bs: Vec<AssignedByte<F>> = chip.native_gadget().assigned_to_le_bytes(l, &ax, Some(1))?;
                    bytes.push(bs[0].clone());
                }
                let p = ladder_base(&ctx, &chip, l, s)?;
                let sc: AssignedScalarOfNativeCurve<C> = chip.scalar_from_le_bytes(l, &bytes)?;
                let n = if s.p_bool("twice") { 2 } else { 1 };
                let via = s.params.get("via").map(|x| x.as_str()).unwrap_or("mul").to_string();
                let mut rs = vec![];
                for _ in 0..n {
                    let r = match via.as_str() {
                        "mul" => chip.mul(l, &sc, &p)?,
                        "msm" => chip.msm(l, &[sc.clone()], &[p.clone()])?,
                        "bounded" => chip.msm_by_bounded_scalars(l, &[(sc.clone(), 8 * nbytes)], &[p.clone()])?,
                        v => panic!("unknown via {v}"),
                    };
                    rs.push(r);
                }
                for r in rs.iter() {
                    ctx.out_point(&chip, l, r)?;
                }
            }
            "msm_const2" => {
                // msm of two constant scalars (bits fixed) over two free/assigned bases: two ladders + one add
                let c0 = scalar_of(&s.p_big("c"));
                let c1 = scalar_of(&s.p_big("c1"));
                let p0 = ladder_base(&ctx, &chip, l, s)?;
                let p1 = ladder_base(&ctx, &chip, l, s)?;
                let s0: AssignedScalarOfNativeCurve<C> = chip.assign_fixed(l, c0)?;
                let s1: AssignedScalarOfNativeCurve<C> = chip.assign_fixed(l, c1)?;
                let n = if s.p_bool("twice") { 2 } else { 1 };
                let mut rs = vec![];
                for _ in 0..n {
                    rs.push(chip.msm(l, &[s0.clone(), s1.clone()], &[p0.clone(), p1.clone()])?);
                }
                for r in rs.iter() {
                    ctx.out_point(&chip, l, r)?;
                }
            }
            op => panic!("unknown edwards op {op}"),
        }
        chip.load_from_scratch(&mut layouter)
    }
}

// ---- helpers of the ladder shapes (appended; part C06_M) ------------------------------------------
use midnight_circuits::{ecc::native::AssignedScalarOfNativeCurve, types::AssignedByte};

/// Base point of a ladder shape: `p.free=1` -> two plain public-input cells (the real
/// `PublicInputInstructions::<AssignedNativePoint>::assign_as_public_input`, which adds no constraint on
/// the coordinates), logged as inputs in instance-row order; otherwise the real `assign`.
fn ladder_base(ctx: &Ctx<'_>, chip: &Chip, l: &mut impl Layouter<F>, s: &Spec) -> Result<Pt, Error> {
    if !s.p_bool("free") {
        return ctx.in_point(chip, l);
    }
    let k = scalar_of(&ctx.take());
    let p: JubjubSubgroup = JubjubSubgroup::generator() * k;
    let ap: Pt = chip.assign_as_public_input(l, Value::known(p))?;
    chip.x_coordinate(&ap).value().map(|v| ctx.io.0.borrow_mut().push((true, *v)));
    chip.y_coordinate(&ap).value().map(|v| ctx.io.0.borrow_mut().push((true, *v)));
    Ok(ap)
}
