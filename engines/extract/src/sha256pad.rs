//! Family "sha256pad" (C07, part P): the PADDING / block-selection logic of the variable-length SHA-256
//! gadget (`circuits/src/hash/sha256/sha256_varlen.rs`), NOT the compression function. The private helpers
//! are reached through the forwarding hook H13 (`verif_final_block_len`, `verif_compute_padding`,
//! `verif_merge_chunks`, `verif_insert_in_array`; feature `verif-hooks`); nothing here computes an expected
//! result, outputs are whatever the real witness generation produced.
//!
//! Circuit configuration as in the repository's own tests of the gadget: `VarLenSha256Gadget` from scratch (it owns a
//! private native gadget) plus a second native gadget, configured from scratch on its own columns, for the caller's
//! side (vector / byte assignment, exposing cells); both tables are loaded. k = 13 (the SHA spread table).
//!
//!   cx sha256pad op=padding p.M=<64|128|256> [p.filler=<byte>] in=<len>:<b0>:..:<b(M-1)>
//!        The input vector `AssignedVector<F, AssignedByte<F>, M, 64>` is created by the real
//!        `VectorGadget::assign` (`assign_with_filler` when p.filler is given) from the first <len> slots,
//!        exactly as a caller of `varhash` has to create it. INPUTS exposed: buffer[0..M] (hook H7), len.
//!        Then, as `sha256_varlen` does: `(fcl, extra) = final_block_len::<M>(len)`;
//!        `padding = compute_padding(len, fcl, buffer[M-64..M], extra)`.
//!        OUTPUTS exposed: fcl (as a native element), extra, padding[0..128].
//!   cx sha256pad op=merge p.L=<4|7|56|64> in=<a0>:..:<a(L-1)>:<b0>:..:<b(L-1)>:<len>
//!        chunk bytes through the real byte `assign`, len a free native cell; OUTPUTS merged[0..L].
//!   cx sha256pad op=insert p.L=<4|64> in=<a0>:..:<a(L-1)>:<elem>:<idx>
//!        OUTPUTS array[0..L] after `insert_in_array(idx, array, elem)`.

use midnight_circuits::{
    hash::sha256::VarLenSha256Gadget,
    instructions::*,
    testing_utils::FromScratch,
    types::{AssignedBit, AssignedByte, AssignedNative, AssignedVector},
    vec::vector_gadget::VectorGadget,
};
use midnight_curves::Fq as F;
use midnight_proofs::{
    circuit::{Layouter, SimpleFloorPlanner, Value},
    plonk::{Circuit, ConstraintSystem, Error},
};
use num_bigint::BigUint;

use crate::native::{f_of, parse_big, IoLog, Spec, NG};

type SHA = VarLenSha256Gadget<F>;

#[derive(Clone)]
pub struct PadCircuit {
    pub spec: Spec,
    pub io: IoLog,
}

fn byte_of(b: &BigUint) -> u8 {
    b.to_u32_digits().first().copied().unwrap_or(0) as u8
}

struct Io {
    io: IoLog,
}

impl Io {
    fn expose(&self, ng: &NG, l: &mut impl Layouter<F>, x: &AssignedNative<F>, is_in: bool) -> Result<(), Error> {
        x.value().map(|v| self.io.0.borrow_mut().push((is_in, *v)));
        ng.constrain_as_public_input(l, x)
    }
    fn expose_byte(&self, ng: &NG, l: &mut impl Layouter<F>, x: &AssignedByte<F>, is_in: bool) -> Result<(), Error> {
        let n: AssignedNative<F> = x.clone().into();
        self.expose(ng, l, &n, is_in)
    }
    fn expose_bit(&self, ng: &NG, l: &mut impl Layouter<F>, x: &AssignedBit<F>, is_in: bool) -> Result<(), Error> {
        let n: AssignedNative<F> = x.clone().into();
        self.expose(ng, l, &n, is_in)
    }
    /// a byte through the real `assign` (range-checked), then exposed as an input
    fn in_byte(&self, ng: &NG, l: &mut impl Layouter<F>, v: &BigUint) -> Result<AssignedByte<F>, Error> {
        let x: AssignedByte<F> = ng.assign(l, Value::known(byte_of(v)))?;
        self.expose_byte(ng, l, &x, true)?;
        Ok(x)
    }
    /// a free native cell, exposed as an input
    fn in_native(&self, ng: &NG, l: &mut impl Layouter<F>, v: &BigUint) -> Result<AssignedNative<F>, Error> {
        let x: AssignedNative<F> = ng.assign(l, Value::known(f_of(v)))?;
        self.expose(ng, l, &x, true)?;
        Ok(x)
    }
}

fn padding<const M: usize>(s: &Spec, io: &Io, sha: &SHA, ng: &NG, l: &mut impl Layouter<F>) -> Result<(), Error> {
    assert_eq!(s.ins.len(), M + 1, "in=<len>:<M slots>");
    let len = s.ins[0].to_u32_digits().first().copied().unwrap_or(0) as usize;
    let payload: Vec<u8> = s.ins[1..].iter().take(len).map(byte_of).collect();
    let vg = VectorGadget::new(ng);
    let v: AssignedVector<F, AssignedByte<F>, M, 64> = match s.params.get("filler") {
        Some(f) => vg.assign_with_filler(l, Value::known(payload), Some(byte_of(&parse_big(f))))?,
        None => vg.assign(l, Value::known(payload))?,
    };
    for c in v.verif_buffer().iter() {
        io.expose_byte(ng, l, c, true)?;
    }
    io.expose(ng, l, v.verif_len(), true)?;

    // what `sha256_varlen` does around its compression calls (same order, same arguments)
    let (fcl, extra) = sha.verif_final_block_len::<M>(l, v.verif_len())?;
    let final_chunk: &[AssignedByte<F>; 64] = (&v.verif_buffer()[M - 64..]).try_into().unwrap();
    let pad = sha.verif_compute_padding(l, v.verif_len(), &fcl, final_chunk, &extra)?;

    let fcl_el = ng.element_of_bounded(l, &fcl)?;
    io.expose(ng, l, &fcl_el, false)?;
    io.expose_bit(ng, l, &extra, false)?;
    for b in pad.iter() {
        io.expose_byte(ng, l, b, false)?;
    }
    Ok(())
}

fn merge<const L: usize>(s: &Spec, io: &Io, sha: &SHA, ng: &NG, l: &mut impl Layouter<F>) -> Result<(), Error> {
    assert_eq!(s.ins.len(), 2 * L + 1, "in=<a[L]>:<b[L]>:<len>");
    let a: Vec<AssignedByte<F>> = s.ins[..L].iter().map(|v| io.in_byte(ng, l, v)).collect::<Result<_, _>>()?;
    let b: Vec<AssignedByte<F>> = s.ins[L..2 * L].iter().map(|v| io.in_byte(ng, l, v)).collect::<Result<_, _>>()?;
    let len = io.in_native(ng, l, &s.ins[2 * L])?;
    let a: [AssignedByte<F>; L] = a.try_into().unwrap();
    let b: [AssignedByte<F>; L] = b.try_into().unwrap();
    let r = sha.verif_merge_chunks::<L>(l, &a, &b, &len)?;
    for x in r.iter() {
        io.expose_byte(ng, l, x, false)?;
    }
    Ok(())
}

fn insert<const L: usize>(s: &Spec, io: &Io, sha: &SHA, ng: &NG, l: &mut impl Layouter<F>) -> Result<(), Error> {
    assert_eq!(s.ins.len(), L + 2, "in=<a[L]>:<elem>:<idx>");
    let a: Vec<AssignedByte<F>> = s.ins[..L].iter().map(|v| io.in_byte(ng, l, v)).collect::<Result<_, _>>()?;
    let elem = io.in_byte(ng, l, &s.ins[L])?;
    let idx = io.in_native(ng, l, &s.ins[L + 1])?;
    let mut a: [AssignedByte<F>; L] = a.try_into().unwrap();
    sha.verif_insert_in_array::<L>(l, &idx, &mut a, elem)?;
    for x in a.iter() {
        io.expose_byte(ng, l, x, false)?;
    }
    Ok(())
}

impl Circuit<F> for PadCircuit {
    /// As in the repository's own tests of the gadget: the SHA-256 chip (which owns a private native gadget)
    /// and a second, independently configured native gadget for the caller's side (vector assignment, byte
    /// assignment, exposing cells). The two cannot share one configuration from outside the crate: a
    /// `Pow2RangeChip` loads only the range tags IT has seen queried, and the chip's own gadget is private.
    type Config = (<SHA as FromScratch<F>>::Config, <NG as FromScratch<F>>::Config);
    type FloorPlanner = SimpleFloorPlanner;
    type Params = ();
    fn without_witnesses(&self) -> Self {
        unreachable!()
    }
    fn configure(meta: &mut ConstraintSystem<F>) -> Self::Config {
        let ci = meta.instance_column();
        let i = meta.instance_column();
        (
            <SHA as FromScratch<F>>::configure_from_scratch(meta, &[ci, i]),
            <NG as FromScratch<F>>::configure_from_scratch(meta, &[ci, i]),
        )
    }
    fn synthesize(&self, config: Self::Config, mut layouter: impl Layouter<F>) -> Result<(), Error> {
        let sha = <SHA as FromScratch<F>>::new_from_scratch(&config.0);
        let ng = <NG as FromScratch<F>>::new_from_scratch(&config.1);
        self.io.0.borrow_mut().clear();
        let io = Io { io: self.io.clone() };
        let s = &self.spec;
        let l = &mut layouter;
        match s.op.as_str() {
            "padding" => match s.p_usize("M") {
                64 => padding::<64>(s, &io, &sha, &ng, l)?,
                128 => padding::<128>(s, &io, &sha, &ng, l)?,
                256 => padding::<256>(s, &io, &sha, &ng, l)?,
                m => panic!("padding: M={m} is not instantiated in the harness"),
            },
            "merge" => match s.p_usize("L") {
                4 => merge::<4>(s, &io, &sha, &ng, l)?,
                7 => merge::<7>(s, &io, &sha, &ng, l)?,
                56 => merge::<56>(s, &io, &sha, &ng, l)?,
                64 => merge::<64>(s, &io, &sha, &ng, l)?,
                n => panic!("merge: L={n} is not instantiated in the harness"),
            },
            "insert" => match s.p_usize("L") {
                4 => insert::<4>(s, &io, &sha, &ng, l)?,
                64 => insert::<64>(s, &io, &sha, &ng, l)?,
                n => panic!("insert: L={n} is not instantiated in the harness"),
            },
            op => panic!("unknown sha256pad op {op}"),
        }
        sha.load_from_scratch(&mut layouter)?;
        ng.load_from_scratch(&mut layouter)
    }
}

/// The whole `main` arm of this family (two synthesis passes, keygen view, dump / replay).
pub fn main_arm(spec: Spec, k: u32, replay: Option<String>) {
    use midnight_proofs::dev::MockProver;
    use serde_json::{json, Value as J};
    let io = IoLog::default();
    let circuit = PadCircuit { spec: spec.clone(), io: io.clone() };
    let _ = MockProver::<F>::run(k, &circuit, vec![vec![], vec![]]).expect("synthesis (pass 1)");
    let rec: Vec<(bool, F)> = io.0.borrow().clone();
    let pi: Vec<F> = rec.iter().map(|x| x.1).collect();
    let prover = MockProver::<F>::run(k, &circuit, vec![vec![], pi]).expect("synthesis (pass 2)");
    let kv = if crate::want_keygen() { crate::keycmp::keygen_view(k, &circuit).unwrap_or_else(|e| json!({"error": format!("{e:?}")})) } else { J::Null };
    crate::finish(prover, rec, replay, json!({"family": "sha256pad", "op": spec.op, "params": spec.params}), kv);
}
