//! Harness circuits for the native-field gadget operations (C04, C08 native part).
//!
//! One circuit = one operation. Inputs are brought in with the real `assign_as_public_input`, outputs are
//! exposed with the real `constrain_as_public_input`, so the plain instance column carries
//! `(inputs, outputs)` in call order. Nothing here computes an expected result: outputs are whatever
//! the real chip's witness generation produced (recorded on a first synthesis pass).

use std::{cell::RefCell, collections::BTreeMap, rc::Rc};

use ff::{Field, PrimeField};
use midnight_circuits::{
    field::{
        decomposition::{
            chip::{P2RDecompositionChip, P2RDecompositionConfig},
            pow2range::Pow2RangeChip,
        },
        native::{NB_ARITH_COLS, NB_ARITH_FIXED_COLS},
        NativeChip, NativeGadget,
    },
    instructions::*,
    types::{AssignedBit, AssignedByte, AssignedNative, ComposableChip},
};
use midnight_curves::Fq as F;
use midnight_proofs::{
    circuit::{Layouter, SimpleFloorPlanner, Value},
    plonk::{Circuit, ConstraintSystem, Error},
};
use num_bigint::BigUint;

pub type NG = NativeGadget<F, P2RDecompositionChip<F>, NativeChip<F>>;

pub fn f_of(b: &BigUint) -> F {
    let m = BigUint::from_bytes_le(&(-F::ONE).to_repr().as_ref().to_vec()) + 1u8;
    let b = b % &m;
    let mut bytes = b.to_bytes_le();
    bytes.resize(32, 0);
    let mut repr = <F as PrimeField>::Repr::default();
    repr.as_mut().copy_from_slice(&bytes);
    F::from_repr(repr).unwrap()
}

pub fn big_of(f: &F) -> BigUint {
    BigUint::from_bytes_le(f.to_repr().as_ref())
}

pub fn parse_big(s: &str) -> BigUint {
    if let Some(h) = s.strip_prefix("0x") {
        BigUint::parse_bytes(h.as_bytes(), 16).expect("hex")
    } else {
        BigUint::parse_bytes(s.as_bytes(), 10).expect("dec")
    }
}

#[derive(Clone, Debug, Default)]
pub struct Spec {
    pub op: String,
    pub params: BTreeMap<String, String>,
    pub ins: Vec<BigUint>,
}

impl Spec {
    pub fn p_usize(&self, k: &str) -> usize {
        self.params.get(k).unwrap_or_else(|| panic!("missing param {k}")).parse().unwrap()
    }
    pub fn p_usize_or(&self, k: &str, d: usize) -> usize {
        self.params.get(k).map(|s| s.parse().unwrap()).unwrap_or(d)
    }
    pub fn p_big(&self, k: &str) -> BigUint {
        parse_big(self.params.get(k).unwrap_or_else(|| panic!("missing param {k}")))
    }
    pub fn p_bigs(&self, k: &str) -> Vec<BigUint> {
        self.params
            .get(k)
            .map(|s| s.split(':').filter(|x| !x.is_empty()).map(parse_big).collect())
            .unwrap_or_default()
    }
    pub fn p_opt_usize(&self, k: &str) -> Option<usize> {
        self.params.get(k).and_then(|s| if s == "none" { None } else { Some(s.parse().unwrap()) })
    }
    pub fn p_bool(&self, k: &str) -> bool {
        self.params.get(k).map(|s| s == "1" || s == "true").unwrap_or(false)
    }
}

/// Records the instance column in call order: (is_input, value).
#[derive(Clone, Default)]
pub struct IoLog(pub Rc<RefCell<Vec<(bool, F)>>>);

pub struct Ctx<'a> {
    pub spec: &'a Spec,
    pub io: IoLog,
    next_in: RefCell<usize>,
}

impl<'a> Ctx<'a> {
    pub fn new(spec: &'a Spec, io: IoLog) -> Self {
        Ctx { spec, io, next_in: RefCell::new(0) }
    }
    fn take(&self) -> BigUint {
        let mut i = self.next_in.borrow_mut();
        let v = self.spec.ins.get(*i).unwrap_or_else(|| panic!("op {} needs more than {} inputs", self.spec.op, *i)).clone();
        *i += 1;
        v
    }
    pub fn in_native(&self, chip: &NG, l: &mut impl Layouter<F>) -> Result<AssignedNative<F>, Error> {
        let v = f_of(&self.take());
        self.io.0.borrow_mut().push((true, v));
        let x: AssignedNative<F> = chip.assign(l, Value::known(v))?;
        chip.constrain_as_public_input(l, &x)?;
        Ok(x)
    }
    pub fn in_bit(&self, chip: &NG, l: &mut impl Layouter<F>) -> Result<AssignedBit<F>, Error> {
        let v = self.take();
        let b = v == BigUint::from(1u8);
        self.io.0.borrow_mut().push((true, if b { F::ONE } else { F::ZERO }));
        // typed inputs come in through the real `assign` (which enforces the type's invariant) and are
        // then exposed; `assign_as_public_input` deliberately skips the range check for bytes.
        let x: AssignedBit<F> = chip.assign(l, Value::known(b))?;
        chip.constrain_as_public_input(l, &x)?;
        Ok(x)
    }
    pub fn in_byte(&self, chip: &NG, l: &mut impl Layouter<F>) -> Result<AssignedByte<F>, Error> {
        let v = self.take();
        let b: u8 = v.to_u32_digits().first().copied().unwrap_or(0) as u8;
        self.io.0.borrow_mut().push((true, F::from(b as u64)));
        let x: AssignedByte<F> = chip.assign(l, Value::known(b))?;
        chip.constrain_as_public_input(l, &x)?;
        Ok(x)
    }
    pub fn out_native(&self, chip: &NG, l: &mut impl Layouter<F>, x: &AssignedNative<F>) -> Result<(), Error> {
        x.value().map(|v| self.io.0.borrow_mut().push((false, *v)));
        chip.constrain_as_public_input(l, x)
    }
    pub fn out_bit(&self, chip: &NG, l: &mut impl Layouter<F>, x: &AssignedBit<F>) -> Result<(), Error> {
        let n: AssignedNative<F> = x.clone().into();
        n.value().map(|v| self.io.0.borrow_mut().push((false, *v)));
        chip.constrain_as_public_input(l, x)
    }
    pub fn out_byte(&self, chip: &NG, l: &mut impl Layouter<F>, x: &AssignedByte<F>) -> Result<(), Error> {
        let n: AssignedNative<F> = x.clone().into();
        n.value().map(|v| self.io.0.borrow_mut().push((false, *v)));
        chip.constrain_as_public_input(l, x)
    }
}

#[derive(Clone)]
pub struct NativeCircuit {
    pub spec: Spec,
    pub io: IoLog,
}

#[derive(Clone, Debug)]
pub struct NParams {
    pub nr_pow2range: usize,
}
impl Default for NParams {
    fn default() -> Self {
        NParams { nr_pow2range: 4 }
    }
}

impl Circuit<F> for NativeCircuit {
    type Config = P2RDecompositionConfig;
    type FloorPlanner = SimpleFloorPlanner;
    type Params = NParams;

    fn without_witnesses(&self) -> Self {
        unreachable!()
    }
    fn params(&self) -> NParams {
        NParams { nr_pow2range: self.spec.p_usize_or("nr", 4) }
    }
    fn configure(_meta: &mut ConstraintSystem<F>) -> Self::Config {
        unreachable!()
    }
    fn configure_with_params(meta: &mut ConstraintSystem<F>, params: NParams) -> Self::Config {
        let advice_columns: [_; NB_ARITH_COLS] = core::array::from_fn(|_| meta.advice_column());
        let fixed_columns: [_; NB_ARITH_FIXED_COLS] = core::array::from_fn(|_| meta.fixed_column());
        let ci = meta.instance_column();
        let i = meta.instance_column();
        let native_config = NativeChip::configure(meta, &(advice_columns, fixed_columns, [ci, i]));
        let pow2range_config = Pow2RangeChip::configure(meta, &advice_columns[1..=params.nr_pow2range]);
        P2RDecompositionConfig::new(&native_config, &pow2range_config)
    }
    fn synthesize(&self, config: Self::Config, mut layouter: impl Layouter<F>) -> Result<(), Error> {
        let max_bit_len = self.spec.p_usize_or("max_bit_len", 8);
        let native_chip = NativeChip::new(&config_native(&config), &());
        let core = P2RDecompositionChip::new(&config, &max_bit_len);
        let chip: NG = NativeGadget::new(core.clone(), native_chip.clone());
        self.io.0.borrow_mut().clear();
        let ctx = Ctx::new(&self.spec, self.io.clone());
        if self.spec.op == "decompose_fixed" {
            // the core decomposition chip called directly (NativeGadget only passes bit lengths that are
            // multiples of the limb size): added after seeded C04-g
            use midnight_circuits::field::decomposition::instructions::CoreDecompositionInstructions;
            let x = ctx.in_native(&chip, &mut layouter)?;
            let limbs = core.decompose_fixed_limb_size(&mut layouter, &x, self.spec.p_usize("bit_length"), self.spec.p_usize("limb_size"))?;
            for lb in limbs.iter() {
                ctx.out_native(&chip, &mut layouter, lb)?;
            }
        } else {
            run_op(&ctx, &chip, &mut layouter)?;
        }
        native_chip.load(&mut layouter)?;
        core.load(&mut layouter)
    }
}

fn config_native(c: &P2RDecompositionConfig) -> midnight_circuits::field::native::NativeConfig {
    c.native_config().clone()
}

fn cf(spec: &Spec, k: &str) -> F {
    f_of(&spec.p_big(k))
}

pub fn run_op(ctx: &Ctx, chip: &NG, l: &mut impl Layouter<F>) -> Result<(), Error> {
    let s = ctx.spec;
    let op = s.op.as_str();
    match op {
        // ---------------- arithmetic on AssignedNative ----------------
        "add" | "sub" | "mul" | "div" => {
            let x = ctx.in_native(chip, l)?;
            let y = ctx.in_native(chip, l)?;
            let r = match op {
                "add" => chip.add(l, &x, &y)?,
                "sub" => chip.sub(l, &x, &y)?,
                "mul" => chip.mul(l, &x, &y, s.params.get("c").map(|_| cf(s, "c")))?,
                _ => chip.div(l, &x, &y)?,
            };
            ctx.out_native(chip, l, &r)
        }
        "neg" | "inv" | "inv0" | "square" => {
            let x = ctx.in_native(chip, l)?;
            let r = match op {
                "neg" => chip.neg(l, &x)?,
                "inv" => chip.inv(l, &x)?,
                "inv0" => chip.inv0(l, &x)?,
                _ => chip.square(l, &x)?,
            };
            ctx.out_native(chip, l, &r)
        }
        "add_constant" | "mul_by_constant" => {
            let x = ctx.in_native(chip, l)?;
            let r = if op == "add_constant" { chip.add_constant(l, &x, cf(s, "c"))? } else { chip.mul_by_constant(l, &x, cf(s, "c"))? };
            ctx.out_native(chip, l, &r)
        }
        "add_constants" => {
            let cs: Vec<F> = s.p_bigs("cs").iter().map(f_of).collect();
            let xs = (0..cs.len()).map(|_| ctx.in_native(chip, l)).collect::<Result<Vec<_>, _>>()?;
            let rs = chip.add_constants(l, &xs, &cs)?;
            for r in rs.iter() {
                ctx.out_native(chip, l, r)?;
            }
            Ok(())
        }
        "pow" => {
            let x = ctx.in_native(chip, l)?;
            let r = chip.pow(l, &x, s.p_usize("n") as u64)?;
            ctx.out_native(chip, l, &r)
        }
        "add_and_mul" => {
            let x = ctx.in_native(chip, l)?;
            let y = ctx.in_native(chip, l)?;
            let z = ctx.in_native(chip, l)?;
            let r = chip.add_and_mul(l, (cf(s, "a"), &x), (cf(s, "b"), &y), (cf(s, "c"), &z), cf(s, "k"), cf(s, "m"))?;
            ctx.out_native(chip, l, &r)
        }
        "linear_combination" => {
            let cs: Vec<F> = s.p_bigs("cs").iter().map(f_of).collect();
            let xs = (0..cs.len()).map(|_| ctx.in_native(chip, l)).collect::<Result<Vec<_>, _>>()?;
            let terms: Vec<(F, AssignedNative<F>)> = cs.into_iter().zip(xs).collect();
            let r = chip.linear_combination(l, &terms, cf(s, "k"))?;
            ctx.out_native(chip, l, &r)
        }
        // ---------------- assertions ----------------
        "assert_equal" | "assert_not_equal" => {
            let x = ctx.in_native(chip, l)?;
            let y = ctx.in_native(chip, l)?;
            if op == "assert_equal" { chip.assert_equal(l, &x, &y) } else { chip.assert_not_equal(l, &x, &y) }
        }
        "assert_equal_to_fixed" | "assert_not_equal_to_fixed" => {
            let x = ctx.in_native(chip, l)?;
            if op == "assert_equal_to_fixed" { chip.assert_equal_to_fixed(l, &x, cf(s, "c")) } else { chip.assert_not_equal_to_fixed(l, &x, cf(s, "c")) }
        }
        "assert_zero" | "assert_non_zero" => {
            let x = ctx.in_native(chip, l)?;
            if op == "assert_zero" { chip.assert_zero(l, &x) } else { chip.assert_non_zero(l, &x) }
        }
        "bit_assert_equal" | "bit_assert_not_equal" => {
            let x = ctx.in_bit(chip, l)?;
            let y = ctx.in_bit(chip, l)?;
            if op == "bit_assert_equal" { chip.assert_equal(l, &x, &y) } else { chip.assert_not_equal(l, &x, &y) }
        }
        "bit_assert_equal_to_fixed" | "bit_assert_not_equal_to_fixed" => {
            let x = ctx.in_bit(chip, l)?;
            let c = s.p_bool("c");
            if op == "bit_assert_equal_to_fixed" { chip.assert_equal_to_fixed(l, &x, c) } else { chip.assert_not_equal_to_fixed(l, &x, c) }
        }
        // ---------------- equality / zero tests ----------------
        "is_equal" | "is_not_equal" => {
            let x = ctx.in_native(chip, l)?;
            let y = ctx.in_native(chip, l)?;
            let r = if op == "is_equal" { chip.is_equal(l, &x, &y)? } else { chip.is_not_equal(l, &x, &y)? };
            ctx.out_bit(chip, l, &r)
        }
        "is_equal_to_fixed" | "is_not_equal_to_fixed" => {
            let x = ctx.in_native(chip, l)?;
            let r = if op == "is_equal_to_fixed" { chip.is_equal_to_fixed(l, &x, cf(s, "c"))? } else { chip.is_not_equal_to_fixed(l, &x, cf(s, "c"))? };
            ctx.out_bit(chip, l, &r)
        }
        "is_zero" => {
            let x = ctx.in_native(chip, l)?;
            let r = chip.is_zero(l, &x)?;
            ctx.out_bit(chip, l, &r)
        }
        "bit_is_equal" | "bit_is_not_equal" => {
            let x = ctx.in_bit(chip, l)?;
            let y = ctx.in_bit(chip, l)?;
            let r = if op == "bit_is_equal" { chip.is_equal(l, &x, &y)? } else { chip.is_not_equal(l, &x, &y)? };
            ctx.out_bit(chip, l, &r)
        }
        "bit_is_equal_to_fixed" => {
            let x = ctx.in_bit(chip, l)?;
            let r = chip.is_equal_to_fixed(l, &x, s.p_bool("c"))?;
            ctx.out_bit(chip, l, &r)
        }
        // ---------------- control flow ----------------
        "select" => {
            let c = ctx.in_bit(chip, l)?;
            let x = ctx.in_native(chip, l)?;
            let y = ctx.in_native(chip, l)?;
            let r = chip.select(l, &c, &x, &y)?;
            ctx.out_native(chip, l, &r)
        }
        "bit_select" => {
            let c = ctx.in_bit(chip, l)?;
            let x = ctx.in_bit(chip, l)?;
            let y = ctx.in_bit(chip, l)?;
            let r = chip.select(l, &c, &x, &y)?;
            ctx.out_bit(chip, l, &r)
        }
        "cond_assert_equal" => {
            let c = ctx.in_bit(chip, l)?;
            let x = ctx.in_native(chip, l)?;
            let y = ctx.in_native(chip, l)?;
            chip.cond_assert_equal(l, &c, &x, &y)
        }
        "cond_swap" => {
            let c = ctx.in_bit(chip, l)?;
            let x = ctx.in_native(chip, l)?;
            let y = ctx.in_native(chip, l)?;
            let (a, b) = chip.cond_swap(l, &c, &x, &y)?;
            ctx.out_native(chip, l, &a)?;
            ctx.out_native(chip, l, &b)
        }
        // ---------------- boolean logic ----------------
        "and" | "or" | "xor" => {
            let n = s.p_usize("n");
            let bits = (0..n).map(|_| ctx.in_bit(chip, l)).collect::<Result<Vec<_>, _>>()?;
            let r = match op {
                "and" => chip.and(l, &bits)?,
                "or" => chip.or(l, &bits)?,
                _ => chip.xor(l, &bits)?,
            };
            ctx.out_bit(chip, l, &r)
        }
        "not" => {
            let b = ctx.in_bit(chip, l)?;
            let r = chip.not(l, &b)?;
            ctx.out_bit(chip, l, &r)
        }
        // ---------------- conversions ----------------
        "bit_to_native" => {
            let b = ctx.in_bit(chip, l)?;
            let r: AssignedNative<F> = chip.convert(l, &b)?;
            ctx.out_native(chip, l, &r)
        }
        "native_to_bit" => {
            let x = ctx.in_native(chip, l)?;
            let r: AssignedBit<F> = chip.convert(l, &x)?;
            ctx.out_bit(chip, l, &r)
        }
        "byte_to_native" => {
            let b = ctx.in_byte(chip, l)?;
            let r: AssignedNative<F> = chip.convert(l, &b)?;
            ctx.out_native(chip, l, &r)
        }
        "native_to_byte" => {
            let x = ctx.in_native(chip, l)?;
            let r: AssignedByte<F> = chip.convert(l, &x)?;
            ctx.out_byte(chip, l, &r)
        }
        // ---------------- decomposition ----------------
        "to_le_bits" | "to_be_bits" => {
            let x = ctx.in_native(chip, l)?;
            let nb = s.p_opt_usize("nb");
            let canon = s.p_bool("canon");
            let bits = if op == "to_le_bits" { chip.assigned_to_le_bits(l, &x, nb, canon)? } else { chip.assigned_to_be_bits(l, &x, nb, canon)? };
            for b in bits.iter() {
                ctx.out_bit(chip, l, b)?;
            }
            Ok(())
        }
        "to_le_bytes" | "to_be_bytes" => {
            let x = ctx.in_native(chip, l)?;
            let nb = s.p_opt_usize("nb");
            let bytes = if op == "to_le_bytes" { chip.assigned_to_le_bytes(l, &x, nb)? } else { chip.assigned_to_be_bytes(l, &x, nb)? };
            for b in bytes.iter() {
                ctx.out_byte(chip, l, b)?;
            }
            Ok(())
        }
        "from_le_bits" | "from_be_bits" => {
            let n = s.p_usize("n");
            let bits = (0..n).map(|_| ctx.in_bit(chip, l)).collect::<Result<Vec<_>, _>>()?;
            let r: AssignedNative<F> = if op == "from_le_bits" { chip.assigned_from_le_bits(l, &bits)? } else { chip.assigned_from_be_bits(l, &bits)? };
            ctx.out_native(chip, l, &r)
        }
        "from_le_bytes" | "from_be_bytes" => {
            let n = s.p_usize("n");
            let bytes = (0..n).map(|_| ctx.in_byte(chip, l)).collect::<Result<Vec<_>, _>>()?;
            let r: AssignedNative<F> = if op == "from_le_bytes" { chip.assigned_from_le_bytes(l, &bytes)? } else { chip.assigned_from_be_bytes(l, &bytes)? };
            ctx.out_native(chip, l, &r)
        }
        "to_le_chunks" => {
            let x = ctx.in_native(chip, l)?;
            let chunks = chip.assigned_to_le_chunks(l, &x, s.p_usize("bits"), s.p_opt_usize("nb"))?;
            for c in chunks.iter() {
                ctx.out_native(chip, l, c)?;
            }
            Ok(())
        }
        "sgn0" => {
            let x = ctx.in_native(chip, l)?;
            let r = chip.sgn0(l, &x)?;
            ctx.out_bit(chip, l, &r)
        }
        // ---------------- canonicity ----------------
        "is_canonical" | "le_bits_lower_than" | "le_bits_geq_than" => {
            let n = s.p_usize("n");
            let bits = (0..n).map(|_| ctx.in_bit(chip, l)).collect::<Result<Vec<_>, _>>()?;
            let r = match op {
                "is_canonical" => chip.is_canonical(l, &bits)?,
                "le_bits_lower_than" => chip.le_bits_lower_than(l, &bits, s.p_big("bound"))?,
                _ => chip.le_bits_geq_than(l, &bits, s.p_big("bound"))?,
            };
            ctx.out_bit(chip, l, &r)
        }
        // ---------------- chains through the bound cache of NativeGadget (`constrained_cells`) ----------------
        // every place that RECORDS a bound (byte/bit conversions, assert_lower_than_fixed, assert_equal) followed by
        // every place that SKIPS constraints because of a recorded bound (added after seeded C04-f)
        "cache_byte_lt" | "cache_byte_lower_than_fixed" => {
            let b = ctx.in_byte(chip, l)?;
            let x: AssignedNative<F> = chip.convert(l, &b)?;
            if op == "cache_byte_lt" {
                chip.assert_lower_than_fixed(l, &x, &s.p_big("bound"))
            } else {
                let bx = chip.bounded_of_element(l, 8, &x)?;
                let r = ComparisonInstructions::<F, AssignedNative<F>>::lower_than_fixed(chip, l, &bx, cf(s, "bound"))?;
                ctx.out_bit(chip, l, &r)
            }
        }
        "cache_bit_lt" => {
            let b = ctx.in_bit(chip, l)?;
            let x: AssignedNative<F> = chip.convert(l, &b)?;
            chip.assert_lower_than_fixed(l, &x, &s.p_big("bound"))
        }
        "cache_lt_then_byte" | "cache_lt_then_bit" => {
            let x = ctx.in_native(chip, l)?;
            chip.assert_lower_than_fixed(l, &x, &s.p_big("bound"))?;
            if op == "cache_lt_then_byte" {
                let r: AssignedByte<F> = chip.convert(l, &x)?;
                ctx.out_byte(chip, l, &r)
            } else {
                let r: AssignedBit<F> = chip.convert(l, &x)?;
                ctx.out_bit(chip, l, &r)
            }
        }
        "cache_eq_then_byte" => {
            let x = ctx.in_native(chip, l)?;
            let b = ctx.in_byte(chip, l)?;
            let y: AssignedNative<F> = chip.convert(l, &b)?;
            chip.assert_equal(l, &x, &y)?;
            let r: AssignedByte<F> = chip.convert(l, &x)?;
            ctx.out_byte(chip, l, &r)
        }
        "cache_lt_lt" => {
            let x = ctx.in_native(chip, l)?;
            chip.assert_lower_than_fixed(l, &x, &s.p_big("bound"))?;
            chip.assert_lower_than_fixed(l, &x, &s.p_big("bound2"))
        }
        // ---------------- range checks / comparisons ----------------
        "assert_lower_than_fixed" => {
            let x = ctx.in_native(chip, l)?;
            chip.assert_lower_than_fixed(l, &x, &s.p_big("bound"))
        }
        "bounded_of_element" => {
            let x = ctx.in_native(chip, l)?;
            let b = chip.bounded_of_element(l, s.p_usize("n"), &x)?;
            let r: AssignedNative<F> = chip.element_of_bounded(l, &b)?;
            ctx.out_native(chip, l, &r)
        }
        "lower_than_fixed" | "greater_than_fixed" | "leq_fixed" | "geq_fixed" => {
            let x = ctx.in_native(chip, l)?;
            let bx = chip.bounded_of_element(l, s.p_usize("n"), &x)?;
            let c = cf(s, "bound");
            let r = match op {
                "lower_than_fixed" => ComparisonInstructions::<F, AssignedNative<F>>::lower_than_fixed(chip, l, &bx, c)?,
                "greater_than_fixed" => ComparisonInstructions::<F, AssignedNative<F>>::greater_than_fixed(chip, l, &bx, c)?,
                "leq_fixed" => ComparisonInstructions::<F, AssignedNative<F>>::leq_fixed(chip, l, &bx, c)?,
                _ => ComparisonInstructions::<F, AssignedNative<F>>::geq_fixed(chip, l, &bx, c)?,
            };
            ctx.out_bit(chip, l, &r)
        }
        "lower_than" | "greater_than" | "leq" | "geq" => {
            let x = ctx.in_native(chip, l)?;
            let y = ctx.in_native(chip, l)?;
            let n = s.p_usize("n");
            let m = s.p_usize_or("m", n);
            let bx = chip.bounded_of_element(l, n, &x)?;
            let by = chip.bounded_of_element(l, m, &y)?;
            let r = match op {
                "lower_than" => ComparisonInstructions::<F, AssignedNative<F>>::lower_than(chip, l, &bx, &by)?,
                "greater_than" => ComparisonInstructions::<F, AssignedNative<F>>::greater_than(chip, l, &bx, &by)?,
                "leq" => ComparisonInstructions::<F, AssignedNative<F>>::leq(chip, l, &bx, &by)?,
                _ => ComparisonInstructions::<F, AssignedNative<F>>::geq(chip, l, &bx, &by)?,
            };
            ctx.out_bit(chip, l, &r)
        }
        // ---------------- division with remainder ----------------
        "div_rem" => {
            let x = ctx.in_native(chip, l)?;
            let bound = s.params.get("bound").map(|_| s.p_big("bound"));
            let (q, r) = chip.div_rem(l, &x, s.p_big("d"), bound)?;
            ctx.out_native(chip, l, &q)?;
            ctx.out_native(chip, l, &r)
        }
        "rem" => {
            let x = ctx.in_native(chip, l)?;
            let bound = s.params.get("bound").map(|_| s.p_big("bound"));
            let r = chip.rem(l, &x, s.p_big("d"), bound)?;
            ctx.out_native(chip, l, &r)
        }
        // ---------------- bitwise ----------------
        "band" | "bor" | "bxor" => {
            let x = ctx.in_native(chip, l)?;
            let y = ctx.in_native(chip, l)?;
            let n = s.p_usize("n");
            let r = match op {
                "band" => chip.band(l, &x, &y, n)?,
                "bor" => chip.bor(l, &x, &y, n)?,
                _ => chip.bxor(l, &x, &y, n)?,
            };
            ctx.out_native(chip, l, &r)
        }
        "bnot" => {
            let x = ctx.in_native(chip, l)?;
            let r = chip.bnot(l, &x, s.p_usize("n"))?;
            ctx.out_native(chip, l, &r)
        }
        // ---------------- typed public-input exposure (C08) ----------------
        "pi_byte" => {
            let b = ctx.in_byte(chip, l)?;
            ctx.out_byte(chip, l, &b)
        }
        _ => panic!("unknown native op {op}"),
    }
}
