//! Harness circuits for the public-input exposure of every exposable type (C08, family "pubin").
//!
//!   cx pubin op=<type>.<path> [p.src=<source>] [p.<...>] in=<values>      (or op=<path> p.ty=<type>)
//!
//! path  constrain   the value is produced by `src` (real `assign`, or an operation of the real chip), its
//!                   VALUE CELLS (limbs / coordinates / flag / bits / bytes) are exposed natively ("in") and
//!                   the chip's own `constrain_as_public_input` is called on it ("out")
//!       assign_pi   the chip's own `assign_as_public_input` ("out"), then the value cells of the object it
//!                   returned are exposed natively ("in")
//!       committed   as `constrain`, but the chip's `constrain_as_committed_public_input` (instance column 0)
//!       zkir_vk     no extraction: a ZKIR program is compiled, the REAL `setup_vk` run (unsafe_setup SRS) and
//!                   `nb_public_inputs` read back from the serialized `MidnightVK`
//! ty    bit | byte | native | biguint | k256fp | k256fq | blsfp | c25519fp | c25519fq | k256pt | blspt | jjpt | jjscalar
//!
//! Nothing here computes an expected instance: the instance of the honest run is read off the copy
//! constraints of a first synthesis pass (every instance cell takes the value of the advice / fixed cell
//! it is tied to). `extra.offcircuit_pi` is the REAL off-circuit encoder applied to the exposed object's
//! `value()`; `extra.out_rows` the number of plain-instance rows the chip's exposure consumed (from
//! `NativeChip::nb_public_inputs`).

use std::{cell::RefCell, marker::PhantomData, rc::Rc};

use ff::{Field, PrimeField};
use group::Group;
use midnight_circuits::{
    biguint::{AssignedBigUint, BigUintGadget},
    ecc::{
        curves::WeierstrassCurve,
        foreign::{nb_foreign_ecc_chip_columns, AssignedForeignPoint, ForeignEccChip, ForeignEccConfig},
        native::{AssignedScalarOfNativeCurve, EccChip, EccConfig},
    },
    field::{
        decomposition::chip::P2RDecompositionConfig,
        foreign::{nb_field_chip_columns, params::{FieldEmulationParams, MultiEmulationParams}, FieldChip, FieldChipConfig},
    },
    instructions::{public_input::CommittedInstanceInstructions, *},
    testing_utils::FromScratch,
    types::{AssignedBit, AssignedByte, AssignedField, AssignedNative, AssignedNativePoint, InnerValue, Instantiable},
    CircuitField, ComposableChip,
};
use midnight_curves::{Fq as F, Fr as JubjubFr, JubjubExtended, JubjubSubgroup};
use midnight_proofs::{
    circuit::{Layouter, SimpleFloorPlanner, Value},
    dev::{CellValue, MockProver},
    plonk::{Any, Circuit, ConstraintSystem, Error},
};
use num_bigint::BigUint;
use serde_json::{json, Value as J};

use crate::{
    dump::hex,
    foreign_ecc::{BlsG1, K256Scalar, MkScalar, K256},
    native::{f_of, Spec, NG},
};

type MEP = MultiEmulationParams;
type Jub = JubjubExtended;

/// what the harness records while synthesising
#[derive(Default, Debug)]
pub struct PLogInner {
    /// plain instance column: direction of every row in order (true = value cell exposed by the harness)
    pub dirs: Vec<bool>,
    /// committed instance column: number of rows consumed by the chip's committed exposure
    pub committed_rows: usize,
    pub offpi: Option<Vec<F>>,
    pub nb_bits: Option<u32>,
    pub notes: Vec<String>,
}

#[derive(Clone, Default)]
pub struct PLog(pub Rc<RefCell<PLogInner>>);

pub struct Ex<'a> {
    pub spec: &'a Spec,
    pub ng: &'a NG,
    pub log: PLog,
    next_in: RefCell<usize>,
}

impl<'a> Ex<'a> {
    fn new(spec: &'a Spec, ng: &'a NG, log: PLog) -> Self {
        *log.0.borrow_mut() = PLogInner::default();
        Ex { spec, ng, log, next_in: RefCell::new(0) }
    }
    fn take(&self) -> BigUint {
        let mut i = self.next_in.borrow_mut();
        let v = self.spec.ins.get(*i).unwrap_or_else(|| panic!("op {} needs more than {} inputs", self.spec.op, *i)).clone();
        *i += 1;
        v
    }
    fn path(&self) -> &str {
        self.spec.op.as_str()
    }
    fn src(&self) -> String {
        self.spec.params.get("src").cloned().unwrap_or_else(|| "assign".to_string())
    }
    /// number of plain public inputs constrained so far (the real chip's own counter)
    fn tick(&self) -> usize {
        self.ng.native_chip.nb_public_inputs()
    }
    /// flag the rows consumed since `before`
    fn tock(&self, before: usize, is_in: bool) {
        let now = self.tick();
        let mut lg = self.log.0.borrow_mut();
        assert_eq!(lg.dirs.len(), before, "instance rows consumed outside the harness' bookkeeping");
        for _ in before..now {
            lg.dirs.push(is_in);
        }
    }
    /// a value cell, exposed natively
    fn expose(&self, l: &mut impl Layouter<F>, x: &AssignedNative<F>) -> Result<(), Error> {
        let t = self.tick();
        self.ng.constrain_as_public_input(l, x)?;
        self.tock(t, true);
        Ok(())
    }
    fn set_off(&self, v: Vec<F>) {
        self.log.0.borrow_mut().offpi = Some(v);
    }
    /// the REAL off-circuit encoder on the object's own value
    fn off<T: Instantiable<F>>(&self, x: &T) {
        x.value().map(|v| self.set_off(T::as_public_input(&v)));
    }
}

/// one kind of harness circuit (its own chip configuration)
pub trait PubinKind: Clone {
    type Config: Clone;
    fn configure(meta: &mut ConstraintSystem<F>) -> Self::Config;
    fn synth(config: &Self::Config, spec: &Spec, log: &PLog, l: &mut impl Layouter<F>) -> Result<(), Error>;
    fn extra(spec: &Spec) -> J;
}

#[derive(Clone)]
pub struct PubinCircuit<T: PubinKind> {
    pub spec: Spec,
    pub log: PLog,
    pub _t: PhantomData<T>,
}

impl<T: PubinKind> Circuit<F> for PubinCircuit<T> {
    type Config = T::Config;
    type FloorPlanner = SimpleFloorPlanner;
    type Params = ();
    fn without_witnesses(&self) -> Self {
        unreachable!()
    }
    fn configure(meta: &mut ConstraintSystem<F>) -> Self::Config {
        T::configure(meta)
    }
    fn synthesize(&self, config: Self::Config, mut layouter: impl Layouter<F>) -> Result<(), Error> {
        T::synth(&config, &self.spec, &self.log, &mut layouter)
    }
}

fn native_of_bit(b: &AssignedBit<F>) -> AssignedNative<F> {
    b.clone().into()
}
fn native_of_byte(b: &AssignedByte<F>) -> AssignedNative<F> {
    b.clone().into()
}
fn low_byte(v: &BigUint) -> u8 {
    v.to_u32_digits().first().copied().unwrap_or(0) as u8
}

// ------------------------------------------------------------------------------------------------
// native kind: bit, byte, native, biguint
// ------------------------------------------------------------------------------------------------
#[derive(Clone)]
pub struct KNative;

/// exposure of a single-cell type through the three paths
macro_rules! single_cell {
    ($ex:expr, $l:expr, $T:ty, $val:expr, $to_native:expr) => {{
        let ex: &Ex = $ex;
        let ng = ex.ng;
        let val = $val;
        match ex.path() {
            "constrain" => {
                let x: $T = ng.assign($l, Value::known(val.clone()))?;
                ex.off::<$T>(&x);
                ex.expose($l, &$to_native(&x))?;
                let t = ex.tick();
                <NG as PublicInputInstructions<F, $T>>::constrain_as_public_input(ng, $l, &x)?;
                ex.tock(t, false);
            }
            "assign_pi" => {
                let t = ex.tick();
                let x: $T = <NG as PublicInputInstructions<F, $T>>::assign_as_public_input(ng, $l, Value::known(val.clone()))?;
                ex.tock(t, false);
                ex.off::<$T>(&x);
                ex.expose($l, &$to_native(&x))?;
            }
            "committed" => {
                let x: $T = ng.assign($l, Value::known(val.clone()))?;
                ex.off::<$T>(&x);
                ex.expose($l, &$to_native(&x))?;
                <NG as CommittedInstanceInstructions<F, $T>>::constrain_as_committed_public_input(ng, $l, &x)?;
                ex.log.0.borrow_mut().committed_rows += 1;
            }
            p => panic!("unknown path {p}"),
        }
    }};
}

impl PubinKind for KNative {
    type Config = P2RDecompositionConfig;
    fn configure(meta: &mut ConstraintSystem<F>) -> Self::Config {
        let ci = meta.instance_column();
        let i = meta.instance_column();
        <NG as FromScratch<F>>::configure_from_scratch(meta, &[ci, i])
    }
    fn synth(config: &Self::Config, spec: &Spec, log: &PLog, l: &mut impl Layouter<F>) -> Result<(), Error> {
        let ng = <NG as FromScratch<F>>::new_from_scratch(config);
        let ex = Ex::new(spec, &ng, log.clone());
        match spec.params.get("ty").map(|s| s.as_str()).unwrap_or("native") {
            "bit" => {
                let v = ex.take() == BigUint::from(1u8);
                single_cell!(&ex, l, AssignedBit<F>, v, native_of_bit);
            }
            "byte" => {
                let v = low_byte(&ex.take());
                single_cell!(&ex, l, AssignedByte<F>, v, native_of_byte);
            }
            "native" => {
                let v = f_of(&ex.take());
                single_cell!(&ex, l, AssignedNative<F>, v, |x: &AssignedNative<F>| x.clone());
            }
            "biguint" => {
                let bg = BigUintGadget::<F, NG>::new(&ng);
                let bx = spec.p_usize_or("bx", 96) as u32;
                let by = spec.p_usize_or("by", bx as usize) as u32;
                let x: AssignedBigUint<F> = match ex.src().as_str() {
                    "assign" => bg.assign_biguint(l, Value::known(ex.take()), bx)?,
                    "fixed" => bg.assign_fixed_biguint(l, spec.p_big("c"))?,
                    "add" | "mul" | "sub" => {
                        let a = bg.assign_biguint(l, Value::known(ex.take()), bx)?;
                        let b = bg.assign_biguint(l, Value::known(ex.take()), by)?;
                        match ex.src().as_str() {
                            "add" => bg.add(l, &a, &b)?,
                            "mul" => bg.mul(l, &a, &b)?,
                            _ => bg.sub(l, &a, &b)?,
                        }
                    }
                    s => panic!("unknown biguint source {s}"),
                };
                let nb = x.nb_bits();
                ex.log.0.borrow_mut().nb_bits = Some(nb);
                x.value().map(|v| ex.set_off(AssignedBigUint::<F>::as_public_input(&v, nb)));
                assert_eq!(ex.path(), "constrain", "BigUint only has constrain_as_public_input");
                let t = ex.tick();
                bg.constrain_as_public_input(l, &x, nb)?;
                ex.tock(t, false);
                // independent view of the integer: its bits through the gadget's own to_le_bits
                let bits = bg.to_le_bits(l, &x)?;
                for b in bits.iter() {
                    ex.expose(l, &native_of_bit(b))?;
                }
            }
            t => panic!("unknown native-kind type {t}"),
        }
        ng.load_from_scratch(l)
    }
    fn extra(spec: &Spec) -> J {
        json!({"family": "native", "log2_base": crate::biguint::log2_base(), "params": spec.params})
    }
}

// ------------------------------------------------------------------------------------------------
// emulated field elements
// ------------------------------------------------------------------------------------------------
#[derive(Clone)]
pub struct KField<K>(PhantomData<K>);

impl<K> PubinKind for KField<K>
where
    K: CircuitField,
    MEP: FieldEmulationParams<F, K>,
{
    type Config = (P2RDecompositionConfig, FieldChipConfig);
    fn configure(meta: &mut ConstraintSystem<F>) -> Self::Config {
        let ci = meta.instance_column();
        let i = meta.instance_column();
        let ngc = <NG as FromScratch<F>>::configure_from_scratch(meta, &[ci, i]);
        let advice_cols = (0..nb_field_chip_columns::<F, K, MEP>()).map(|_| meta.advice_column()).collect::<Vec<_>>();
        let fc = FieldChip::<F, K, MEP, NG>::configure(meta, &advice_cols);
        (ngc, fc)
    }
    fn synth(config: &Self::Config, spec: &Spec, log: &PLog, l: &mut impl Layouter<F>) -> Result<(), Error> {
        let ng = <NG as FromScratch<F>>::new_from_scratch(&config.0);
        let chip = FieldChip::<F, K, MEP, NG>::new(&config.1, &ng);
        let ex = Ex::new(spec, &ng, log.clone());
        type AF<K> = AssignedField<F, K, MEP>;
        let expose_elem = |ex: &Ex, l: &mut _, x: &AF<K>| -> Result<(), Error> {
            for limb in x.limb_values().iter() {
                ex.expose(l, limb)?;
            }
            Ok(())
        };
        match ex.path() {
            "constrain" => {
                let x: AF<K> = chip.assign(l, Value::known(crate::foreign::k_of::<K>(&ex.take())))?;
                expose_elem(&ex, l, &x)?;
                let t_: AF<K> = match ex.src().as_str() {
                    "assign" => x,
                    "add" | "sub" | "mul" => {
                        let y: AF<K> = chip.assign(l, Value::known(crate::foreign::k_of::<K>(&ex.take())))?;
                        expose_elem(&ex, l, &y)?;
                        match ex.src().as_str() {
                            "add" => chip.add(l, &x, &y)?,
                            "sub" => chip.sub(l, &x, &y)?,
                            _ => chip.mul(l, &x, &y, None)?,
                        }
                    }
                    "neg" => chip.neg(l, &x)?,
                    s => panic!("unknown field source {s}"),
                };
                ex.off::<AF<K>>(&t_);
                let t = ex.tick();
                chip.constrain_as_public_input(l, &t_)?;
                ex.tock(t, false);
            }
            "assign_pi" => {
                let v: K = crate::foreign::k_of::<K>(&ex.take());
                let t = ex.tick();
                let x: AF<K> = chip.assign_as_public_input(l, Value::known(v))?;
                ex.tock(t, false);
                ex.off::<AF<K>>(&x);
                expose_elem(&ex, l, &x)?;
            }
            p => panic!("unknown path {p} for emulated field elements"),
        }
        ng.load_from_scratch(l)
    }
    fn extra(spec: &Spec) -> J {
        let moduli: Vec<String> = <MEP as FieldEmulationParams<F, K>>::moduli().iter().map(|m| m.to_string()).collect();
        json!({"family": "foreign", "params": spec.params,
            "emulated_modulus": format!("0x{:x}", <K as CircuitField>::modulus()),
            "log2_base": <MEP as FieldEmulationParams<F, K>>::LOG2_BASE,
            "nb_limbs": <MEP as FieldEmulationParams<F, K>>::NB_LIMBS,
            "moduli": moduli})
    }
}

// ------------------------------------------------------------------------------------------------
// foreign curve points
// ------------------------------------------------------------------------------------------------
#[derive(Clone)]
pub struct KPoint<C, S>(PhantomData<(C, S)>);

impl<C, S> PubinKind for KPoint<C, S>
where
    C: WeierstrassCurve,
    MEP: FieldEmulationParams<F, C::Base>,
    S: ScalarFieldInstructions<F> + MkScalar<C> + Clone,
    S::Scalar: InnerValue<Element = C::ScalarField>,
{
    type Config = (P2RDecompositionConfig, ForeignEccConfig<C>, Option<FieldChipConfig>);
    fn configure(meta: &mut ConstraintSystem<F>) -> Self::Config {
        let ci = meta.instance_column();
        let i = meta.instance_column();
        let ngc = <NG as FromScratch<F>>::configure_from_scratch(meta, &[ci, i]);
        let sc = <S as MkScalar<C>>::cfg(meta);
        let nb = nb_foreign_ecc_chip_columns::<F, C, MEP, S>();
        let advice_columns = (0..nb).map(|_| meta.advice_column()).collect::<Vec<_>>();
        let base_field_config = FieldChip::<F, C::Base, MEP, NG>::configure(meta, &advice_columns);
        let ecc = ForeignEccChip::<F, C, MEP, S, NG>::configure(meta, &base_field_config, &advice_columns);
        (ngc, ecc, sc)
    }
    fn synth(config: &Self::Config, spec: &Spec, log: &PLog, l: &mut impl Layouter<F>) -> Result<(), Error> {
        let ng = <NG as FromScratch<F>>::new_from_scratch(&config.0);
        let sc: S = <S as MkScalar<C>>::mk(&ng, &config.2);
        let chip = ForeignEccChip::<F, C, MEP, S, NG>::new(&config.1, &ng, &sc);
        let ex = Ex::new(spec, &ng, log.clone());
        type Pt<C> = AssignedForeignPoint<F, C, MEP>;
        let point_of = |k: &BigUint| -> C::CryptographicGroup {
            let s: C::ScalarField = crate::foreign_ecc::scalar_of(k);
            C::CryptographicGroup::generator() * s
        };
        let expose_point = |ex: &Ex, l: &mut _, p: &Pt<C>| -> Result<(), Error> {
            let x = chip.x_coordinate(p);
            let y = chip.y_coordinate(p);
            for limb in x.limb_values().iter().chain(y.limb_values().iter()) {
                ex.expose(l, limb)?;
            }
            let is_id: AssignedBit<F> = chip.is_zero(l, p)?;
            ex.expose(l, &native_of_bit(&is_id))
        };
        match ex.path() {
            "constrain" => {
                let p: Pt<C> = chip.assign(l, Value::known(point_of(&ex.take())))?;
                let r: Pt<C> = match ex.src().as_str() {
                    "assign" => p,
                    "add" => {
                        let q: Pt<C> = chip.assign(l, Value::known(point_of(&ex.take())))?;
                        chip.add(l, &p, &q)?
                    }
                    "double" => chip.double(l, &p)?,
                    "negate" => chip.negate(l, &p)?,
                    "fixed" => chip.assign_fixed(l, point_of(&spec.p_big("c")))?,
                    s => panic!("unknown point source {s}"),
                };
                expose_point(&ex, l, &r)?;
                ex.off::<Pt<C>>(&r);
                let t = ex.tick();
                chip.constrain_as_public_input(l, &r)?;
                ex.tock(t, false);
            }
            "assign_pi" => {
                let v = point_of(&ex.take());
                let t = ex.tick();
                let p: Pt<C> = chip.assign_as_public_input(l, Value::known(v))?;
                ex.tock(t, false);
                ex.off::<Pt<C>>(&p);
                expose_point(&ex, l, &p)?;
            }
            p => panic!("unknown path {p} for foreign points"),
        }
        ng.load_from_scratch(l)
    }
    fn extra(spec: &Spec) -> J {
        let mut s2 = spec.clone();
        s2.op = "constrain".to_string();
        crate::foreign_ecc::extra::<C>(&s2)
    }
}

// ------------------------------------------------------------------------------------------------
// Jubjub points and scalars (native Edwards chip)
// ------------------------------------------------------------------------------------------------
#[derive(Clone)]
pub struct KJub;

pub fn jub_scalar_of(b: &BigUint) -> JubjubFr {
    let mut acc = JubjubFr::ZERO;
    for byte in b.to_bytes_be() {
        acc = acc * JubjubFr::from(256u64) + JubjubFr::from(byte as u64);
    }
    acc
}

impl PubinKind for KJub {
    type Config = (EccConfig, P2RDecompositionConfig);
    fn configure(meta: &mut ConstraintSystem<F>) -> Self::Config {
        let ci = meta.instance_column();
        let i = meta.instance_column();
        <EccChip<Jub> as FromScratch<F>>::configure_from_scratch(meta, &[ci, i])
    }
    fn synth(config: &Self::Config, spec: &Spec, log: &PLog, l: &mut impl Layouter<F>) -> Result<(), Error> {
        let ng = <NG as FromScratch<F>>::new_from_scratch(&config.1);
        let chip = <EccChip<Jub> as ComposableChip<F>>::new(&config.0, &ng);
        let ex = Ex::new(spec, &ng, log.clone());
        type Pt = AssignedNativePoint<Jub>;
        type Sc = AssignedScalarOfNativeCurve<Jub>;
        let point_of = |k: &BigUint| -> JubjubSubgroup { JubjubSubgroup::generator() * jub_scalar_of(k) };
        match spec.params.get("ty").map(|s| s.as_str()).unwrap_or("jjpt") {
            "jjpt" => match ex.path() {
                "constrain" => {
                    let p: Pt = chip.assign(l, Value::known(point_of(&ex.take())))?;
                    let r: Pt = match ex.src().as_str() {
                        "assign" => p,
                        "add" => {
                            let q: Pt = chip.assign(l, Value::known(point_of(&ex.take())))?;
                            chip.add(l, &p, &q)?
                        }
                        "negate" => chip.negate(l, &p)?,
                        "fixed" => chip.assign_fixed(l, point_of(&spec.p_big("c")))?,
                        s => panic!("unknown point source {s}"),
                    };
                    ex.expose(l, &chip.x_coordinate(&r))?;
                    ex.expose(l, &chip.y_coordinate(&r))?;
                    ex.off::<Pt>(&r);
                    let t = ex.tick();
                    chip.constrain_as_public_input(l, &r)?;
                    ex.tock(t, false);
                }
                "assign_pi" => {
                    let v = point_of(&ex.take());
                    let t = ex.tick();
                    let p: Pt = chip.assign_as_public_input(l, Value::known(v))?;
                    ex.tock(t, false);
                    ex.set_off(<Pt as Instantiable<F>>::as_public_input(&v));
                    ex.expose(l, &chip.x_coordinate(&p))?;
                    ex.expose(l, &chip.y_coordinate(&p))?;
                }
                p => panic!("unknown path {p} for Jubjub points"),
            },
            "jjscalar" => {
                // the scalar an object stands for: the integer its bits represent, modulo the group order
                let (s, sval): (Sc, JubjubFr) = match ex.src().as_str() {
                    "assign" => {
                        let v = jub_scalar_of(&ex.take());
                        if ex.path() == "assign_pi" {
                            let t = ex.tick();
                            let _s: Sc = chip.assign_as_public_input(l, Value::known(v))?;
                            ex.tock(t, false);
                            ex.set_off(<Sc as Instantiable<F>>::as_public_input(&v));
                            return ng.load_from_scratch(l);
                        }
                        (chip.assign(l, Value::known(v))?, v)
                    }
                    "fixed" => {
                        let v = jub_scalar_of(&spec.p_big("c"));
                        (chip.assign_fixed(l, v)?, v)
                    }
                    "bytes" => {
                        let n = spec.p_usize("n");
                        let mut bytes = Vec::with_capacity(n);
                        let mut acc = BigUint::from(0u8);
                        for i in 0..n {
                            let b = low_byte(&ex.take());
                            acc += BigUint::from(b) << (8 * i);
                            let ab: AssignedByte<F> = ng.assign(l, Value::known(b))?;
                            ex.expose(l, &native_of_byte(&ab))?;
                            bytes.push(ab);
                        }
                        (chip.scalar_from_le_bytes(l, &bytes)?, jub_scalar_of(&acc))
                    }
                    "convert" => {
                        let v = ex.take();
                        let x: AssignedNative<F> = ng.assign(l, Value::known(f_of(&v)))?;
                        ex.expose(l, &x)?;
                        let s: Sc = chip.convert(l, &x)?;
                        (s, jub_scalar_of(&v))
                    }
                    s => panic!("unknown scalar source {s}"),
                };
                ex.set_off(<Sc as Instantiable<F>>::as_public_input(&sval));
                assert_eq!(ex.path(), "constrain");
                let t = ex.tick();
                chip.constrain_as_public_input(l, &s)?;
                ex.tock(t, false);
            }
            t => panic!("unknown Jubjub-kind type {t}"),
        }
        ng.load_from_scratch(l)
    }
    fn extra(spec: &Spec) -> J {
        json!({"family": "edwards", "params": spec.params, "curve_d": crate::edwards::curve_d_hex(),
            "scalar_order": format!("0x{:x}", BigUint::from_bytes_le((-JubjubFr::ONE).to_repr().as_ref()) + 1u8),
            "scalar_num_bits": <JubjubFr as PrimeField>::NUM_BITS,
            "native_num_bits": <F as PrimeField>::NUM_BITS})
    }
}

// ------------------------------------------------------------------------------------------------
// driver
// ------------------------------------------------------------------------------------------------

/// the instance the honest witness implies: every instance cell takes the value of the first advice /
/// fixed cell of its copy cycle. Returns one vector per instance column (rows up to the last tied row) and
/// the list of untied rows below it.
fn instance_from_copies(p: &MockProver<F>) -> (Vec<Vec<F>>, Vec<String>) {
    use rayon::iter::ParallelIterator;
    let perm = p.permutation();
    let cols = perm.columns().to_vec();
    let maps: Vec<Vec<(usize, usize)>> = perm.mapping().map(|c| c.collect::<Vec<_>>()).collect();
    let ninst = p.cs().num_instance_columns();
    let mut out = vec![vec![]; ninst];
    let mut untied = vec![];
    for (ci, col) in cols.iter().enumerate() {
        if !matches!(col.column_type(), Any::Instance) {
            continue;
        }
        let ic = col.index();
        let mut vals: Vec<Option<F>> = vec![];
        let mut last: Option<usize> = None;
        for r in 0..maps[ci].len() {
            let (mut cj, mut rj) = maps[ci][r];
            if (cj, rj) != (ci, r) {
                last = Some(r);
            }
            let mut v = None;
            let mut steps = 0usize;
            while (cj, rj) != (ci, r) && steps < (1 << 22) {
                match cols[cj].column_type() {
                    Any::Advice(_) => {
                        if let CellValue::Assigned(x) = p.advice()[cols[cj].index()][rj] {
                            v = Some(x);
                            break;
                        }
                    }
                    Any::Fixed => {
                        if let CellValue::Assigned(x) = p.fixed()[cols[cj].index()][rj] {
                            v = Some(x);
                            break;
                        }
                    }
                    _ => {}
                }
                let nx = maps[cj][rj];
                cj = nx.0;
                rj = nx.1;
                steps += 1;
            }
            vals.push(v);
        }
        let n = last.map(|x| x + 1).unwrap_or(0);
        for (r, v) in vals[..n].iter().enumerate() {
            if v.is_none() {
                untied.push(format!("i{}_{}", ic, r));
            }
        }
        out[ic] = vals[..n].iter().map(|v| v.unwrap_or(F::ZERO)).collect();
    }
    (out, untied)
}

fn run<T: PubinKind>(spec: &Spec, k: u32, replay: Option<String>) {
    let log = PLog::default();
    let circuit = PubinCircuit::<T> { spec: spec.clone(), log: log.clone(), _t: PhantomData };
    let p1 = match MockProver::<F>::run(k, &circuit, vec![vec![], vec![]]) {
        Ok(p) => p,
        Err(e) => {
            // the library refuses the shape with an error (no circuit): reported as such, not a harness failure
            println!("{}", json!({"no_circuit": true, "honest_verify": false, "extra": {"synth_err": format!("{e:?}"), "params": spec.params}}));
            return;
        }
    };
    let (inst, untied) = instance_from_copies(&p1);
    let lg1_dirs = log.0.borrow().dirs.clone();
    let prover = MockProver::<F>::run(k, &circuit, inst.clone()).expect("synthesis (pass 2)");
    let lg = log.0.borrow();
    assert_eq!(lg.dirs, lg1_dirs);
    let plain = inst.get(1).cloned().unwrap_or_default();
    // rows of the plain column in order; a row beyond the harness' bookkeeping is reported, never dropped
    let rec: Vec<(bool, F)> = plain.iter().enumerate().map(|(r, v)| (lg.dirs.get(r).copied().unwrap_or(false), *v)).collect();
    let mut extra = T::extra(spec);
    extra["pubin"] = json!({
        "path": spec.op, "ty": spec.params.get("ty"), "src": spec.params.get("src"),
        "offcircuit_pi": lg.offpi.as_ref().map(|v| v.iter().map(hex).collect::<Vec<_>>()),
        "out_rows": lg.dirs.iter().filter(|d| !**d).count(),
        "in_rows": lg.dirs.iter().filter(|d| **d).count(),
        "counter_rows": lg.dirs.len(),
        "tied_plain_rows": plain.len(),
        "committed_rows": lg.committed_rows,
        "committed_instance": inst.first().map(|c| c.iter().map(hex).collect::<Vec<_>>()),
        "untied": untied,
        "nb_bits": lg.nb_bits,
        "notes": lg.notes,
    });
    extra["offcircuit_pi"] = json!(lg.offpi.as_ref().map(|v| v.iter().map(hex).collect::<Vec<_>>()).unwrap_or_default());
    drop(lg);
    let kv = if crate::want_keygen() {
        crate::keycmp::keygen_view(k, &circuit).unwrap_or_else(|e| json!({"error": format!("{e:?}")}))
    } else {
        J::Null
    };
    crate::finish(prover, rec, replay, extra, kv);
}

// ------------------------------------------------------------------------------------------------
// ZKIR programs: nb_public_inputs recorded in the MidnightVK vs the length of public_inputs(...)
// ------------------------------------------------------------------------------------------------

struct DetRng(u64);
impl rand_core::RngCore for DetRng {
    fn next_u32(&mut self) -> u32 {
        self.next_u64() as u32
    }
    fn next_u64(&mut self) -> u64 {
        // splitmix64
        self.0 = self.0.wrapping_add(0x9e3779b97f4a7c15);
        let mut z = self.0;
        z = (z ^ (z >> 30)).wrapping_mul(0xbf58476d1ce4e5b9);
        z = (z ^ (z >> 27)).wrapping_mul(0x94d049bb133111eb);
        z ^ (z >> 31)
    }
    fn fill_bytes(&mut self, dest: &mut [u8]) {
        for ch in dest.chunks_mut(8) {
            let b = self.next_u64().to_le_bytes();
            ch.copy_from_slice(&b[..ch.len()]);
        }
    }
    fn try_fill_bytes(&mut self, dest: &mut [u8]) -> Result<(), rand_core::Error> {
        self.fill_bytes(dest);
        Ok(())
    }
}

fn zkir_witness(w: &J) -> std::collections::HashMap<&'static str, midnight_zkir::IrValue> {
    use midnight_zkir::IrValue;
    let mut out = std::collections::HashMap::new();
    for (k, v) in w.as_object().expect("witness object") {
        let name: &'static str = Box::leak(k.clone().into_boxed_str());
        let t = v["t"].as_str().unwrap();
        let val = v["v"].as_str().unwrap();
        let iv: IrValue = match t {
            "bool" => (crate::native::parse_big(val) == 1u8.into()).into(),
            "native" => f_of(&crate::native::parse_big(val)).into(),
            "biguint" => crate::native::parse_big(val).into(),
            "bytes" => {
                let h = val.trim_start_matches("0x");
                let bytes: Vec<u8> = (0..h.len() / 2).map(|i| u8::from_str_radix(&h[2 * i..2 * i + 2], 16).unwrap()).collect();
                bytes.into()
            }
            "jjpt" => (JubjubSubgroup::generator() * jub_scalar_of(&crate::native::parse_big(val))).into(),
            "jjscalar" => jub_scalar_of(&crate::native::parse_big(val)).into(),
            _ => panic!("unsupported witness type {t}"),
        };
        out.insert(name, iv);
    }
    out
}

fn zkir_vk(spec: &Spec) {
    use midnight_proofs::{poly::kzg::params::ParamsKZG, utils::helpers::SerdeFormat};
    use midnight_zk_stdlib::{MidnightCircuit, Relation};
    use midnight_zkir::{Instruction, ZkirRelation};
    let path = spec.params.get("prog").expect("p.prog=<file>");
    let j: J = serde_json::from_str(&std::fs::read_to_string(path).unwrap()).unwrap();
    let instructions: Vec<Instruction> = serde_json::from_value(j["instructions"].clone()).expect("instructions");
    let witness = zkir_witness(&j["witness"]);
    let relation = match ZkirRelation::from_instructions(&instructions) {
        Ok(r) => r,
        Err(e) => {
            println!("{}", json!({"rejected_at": "from_instructions", "error": format!("{e:?}")}));
            return;
        }
    };
    let pis = match relation.public_inputs(witness.clone()) {
        Ok(p) => p,
        Err(e) => {
            println!("{}", json!({"rejected_at": "public_inputs", "error": format!("{e:?}")}));
            return;
        }
    };
    let formatted: Vec<F> = ZkirRelation::format_instance(&pis).expect("format_instance");
    // the number of rows the compiled circuit ties on the plain instance column (honest run)
    let circuit = MidnightCircuit::new(&relation, Value::known(pis.clone()), Value::known(witness), None);
    let k = circuit.min_k();
    let (tied, honest_ok, honest_instance) = match MockProver::<F>::run(k, &circuit, vec![vec![], vec![]]) {
        Ok(p1) => {
            let (inst, _) = instance_from_copies(&p1);
            let plain = inst.get(1).cloned().unwrap_or_default();
            let ok = MockProver::<F>::run(k, &circuit, vec![vec![], formatted.clone()]).map(|p| p.verify().is_ok()).unwrap_or(false);
            (plain.len() as i64, ok, plain)
        }
        Err(_) => (-1, false, vec![]),
    };
    // the REAL setup_vk; nb_public_inputs is read back from the key's own serialisation:
    //   architecture || max_bit_len (1 byte) || nb_public_inputs (u32 LE) || inner key
    let srs: ParamsKZG<midnight_curves::Bls12> = ParamsKZG::unsafe_setup(k, DetRng(7));
    let vk = midnight_zk_stdlib::setup_vk(&srs, &relation);
    let mut bytes = vec![];
    vk.write(&mut bytes, SerdeFormat::RawBytes).unwrap();
    let mut arch = vec![];
    relation.used_chips().write(&mut arch).unwrap();
    assert_eq!(&bytes[..arch.len()], &arch[..], "MidnightVK does not start with its architecture");
    let off = arch.len() + 1;
    let nb_vk = u32::from_le_bytes(bytes[off..off + 4].try_into().unwrap()) as usize;
    println!(
        "{}",
        json!({"k": k, "nb_public_inputs_vk": nb_vk, "len_format_instance": formatted.len(),
            "tied_plain_rows": tied, "honest_verify_with_offcircuit_instance": honest_ok,
            "offcircuit_instance": formatted.iter().map(hex).collect::<Vec<_>>(),
            "honest_instance": honest_instance.iter().map(hex).collect::<Vec<_>>(),
            "published": pis.iter().map(|(v, t)| format!("{t:?}={v:?}")).collect::<Vec<_>>()})
    );
}

pub fn main_arm(spec: Spec, k: u32, replay: Option<String>) {
    if spec.op == "zkir_vk" {
        return zkir_vk(&spec);
    }
    // op=<ty>.<path> (so that the role key of an obligation names the type) or op=<path> p.ty=<ty>
    let mut spec = spec;
    if let Some((ty, path)) = spec.op.clone().split_once('.') {
        spec.params.insert("ty".to_string(), ty.to_string());
        // op=<ty>.<path>.<label>: the label only names the obligation's role
        spec.op = path.split('.').next().unwrap().to_string();
    }
    match spec.params.get("ty").map(|s| s.as_str()).unwrap_or("native") {
        "bit" | "byte" | "native" | "biguint" => run::<KNative>(&spec, k, replay),
        "k256fp" => run::<KField<midnight_curves::k256::Fp>>(&spec, k, replay),
        "k256fq" => run::<KField<midnight_curves::k256::Fq>>(&spec, k, replay),
        "blsfp" => run::<KField<midnight_curves::Fp>>(&spec, k, replay),
        "c25519fp" => run::<KField<midnight_curves::curve25519::Fp>>(&spec, k, replay),
        "c25519fq" => run::<KField<midnight_curves::curve25519::Scalar>>(&spec, k, replay),
        "k256pt" => run::<KPoint<K256, K256Scalar>>(&spec, k, replay),
        "blspt" => run::<KPoint<BlsG1, NG>>(&spec, k, replay),
        "jjpt" | "jjscalar" => run::<KJub>(&spec, k, replay),
        t => panic!("unknown pubin type {t}"),
    }
}
