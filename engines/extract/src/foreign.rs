//! Harness circuits for emulated-field operations (C05, C08 foreign part).
//!
//! An emulated element is brought in with the real `FieldChip::assign` (which range-checks the limbs
//! to the well-formed bounds) and its LIMBS are exposed one by one on the plain instance column
//! through the native chip; results are exposed the same way. The instance column therefore carries
//! arbitrary limb REPRESENTATIONS (not canonical residues), which is what puts non-canonical
//! representations inside the quantifier. `pi` operations use the chip's own public-input exposure.

use std::{cell::RefCell, marker::PhantomData};

use ff::{Field, PrimeField};
use midnight_circuits::{
    field::{
        decomposition::chip::P2RDecompositionConfig,
        foreign::{nb_field_chip_columns, params::MultiEmulationParams, FieldChip, FieldChipConfig},
    },
    instructions::*,
    testing_utils::FromScratch,
    types::{AssignedBit, AssignedByte, AssignedField, AssignedNative},
    CircuitField,
};
use midnight_curves::Fq as F;
use midnight_proofs::{
    circuit::{Layouter, SimpleFloorPlanner, Value},
    plonk::{Circuit, ConstraintSystem, Error},
};
use num_bigint::BigUint;

use crate::native::{IoLog, Spec, NG};

type MEP = MultiEmulationParams;

pub fn k_of<K: PrimeField>(b: &BigUint) -> K {
    K::from_str_vartime(&b.to_string()).expect("field element from decimal string (must be < modulus)")
}

#[derive(Clone)]
pub struct ForeignCircuit<K> {
    pub spec: Spec,
    pub io: IoLog,
    pub _k: PhantomData<K>,
}

pub struct FCtx<'a> {
    pub spec: &'a Spec,
    pub io: IoLog,
    next_in: RefCell<usize>,
}

impl<'a> FCtx<'a> {
    fn take(&self) -> BigUint {
        let mut i = self.next_in.borrow_mut();
        let v = self.spec.ins.get(*i).unwrap_or_else(|| panic!("op {} needs more than {} inputs", self.spec.op, *i)).clone();
        *i += 1;
        v
    }
    fn expose(&self, ng: &NG, l: &mut impl Layouter<F>, x: &AssignedNative<F>, is_in: bool) -> Result<(), Error> {
        x.value().map(|v| self.io.0.borrow_mut().push((is_in, *v)));
        ng.constrain_as_public_input(l, x)
    }
}

macro_rules! field_family {
    ($K:ty) => {
        impl Circuit<F> for ForeignCircuit<$K> {
            type Config = (P2RDecompositionConfig, FieldChipConfig);
            type FloorPlanner = SimpleFloorPlanner;
            type Params = ();

            fn without_witnesses(&self) -> Self {
                unreachable!()
            }
            fn configure(meta: &mut ConstraintSystem<F>) -> Self::Config {
                let ci = meta.instance_column();
                let i = meta.instance_column();
                let ngc = <NG as FromScratch<F>>::configure_from_scratch(meta, &[ci, i]);
                let advice_cols = (0..nb_field_chip_columns::<F, $K, MEP>()).map(|_| meta.advice_column()).collect::<Vec<_>>();
                let fc = FieldChip::<F, $K, MEP, NG>::configure(meta, &advice_cols);
                (ngc, fc)
            }
            fn synthesize(&self, config: Self::Config, mut layouter: impl Layouter<F>) -> Result<(), Error> {
                let ng = <NG as FromScratch<F>>::new_from_scratch(&config.0);
                let chip = FieldChip::<F, $K, MEP, NG>::new(&config.1, &ng);
                self.io.0.borrow_mut().clear();
                let ctx = FCtx { spec: &self.spec, io: self.io.clone(), next_in: RefCell::new(0) };
                run_foreign_op::<$K>(&ctx, &chip, &ng, &mut layouter)?;
                ng.load_from_scratch(&mut layouter)
            }
        }
    };
}

field_family!(midnight_curves::k256::Fp);
field_family!(midnight_curves::k256::Fq);
field_family!(midnight_curves::Fp);
field_family!(midnight_curves::curve25519::Fp);
field_family!(midnight_curves::curve25519::Scalar);

type FC<K> = FieldChip<F, K, MEP, NG>;
type AF<K> = AssignedField<F, K, MEP>;

fn in_elem<K>(ctx: &FCtx, chip: &FC<K>, ng: &NG, l: &mut impl Layouter<F>) -> Result<AF<K>, Error>
where
    K: CircuitField,
    MEP: midnight_circuits::field::foreign::params::FieldEmulationParams<F, K>,
{
    let v: K = k_of(&ctx.take());
    let x: AF<K> = chip.assign(l, Value::known(v))?;
    for limb in x.limb_values().iter() {
        ctx.expose(ng, l, limb, true)?;
    }
    Ok(x)
}

fn out_elem<K>(ctx: &FCtx, ng: &NG, l: &mut impl Layouter<F>, x: &AF<K>) -> Result<(), Error>
where
    K: CircuitField,
    MEP: midnight_circuits::field::foreign::params::FieldEmulationParams<F, K>,
{
    for limb in x.limb_values().iter() {
        ctx.expose(ng, l, limb, false)?;
    }
    Ok(())
}

fn out_bit(ctx: &FCtx, ng: &NG, l: &mut impl Layouter<F>, b: &AssignedBit<F>) -> Result<(), Error> {
    let n: AssignedNative<F> = b.clone().into();
    ctx.expose(ng, l, &n, false)
}

fn in_bit(ctx: &FCtx, ng: &NG, l: &mut impl Layouter<F>) -> Result<AssignedBit<F>, Error> {
    let v = ctx.take();
    let b: AssignedBit<F> = ng.assign(l, Value::known(v == BigUint::from(1u8)))?;
    let n: AssignedNative<F> = b.clone().into();
    ctx.expose(ng, l, &n, true)?;
    Ok(b)
}

pub fn run_foreign_op<K>(ctx: &FCtx, chip: &FC<K>, ng: &NG, l: &mut impl Layouter<F>) -> Result<(), Error>
where
    K: CircuitField,
    MEP: midnight_circuits::field::foreign::params::FieldEmulationParams<F, K>,
{
    let s = ctx.spec;
    let op = s.op.as_str();
    // optional pre-processing making the operands non-normalised: `pre=add` replaces x by x + x0
    match op {
        "assign" => {
            let x = in_elem(ctx, chip, ng, l)?;
            let _ = x;
            Ok(())
        }
        "add" | "sub" | "mul" | "div" => {
            let x = in_elem(ctx, chip, ng, l)?;
            let y = in_elem(ctx, chip, ng, l)?;
            let r = match op {
                "add" => chip.add(l, &x, &y)?,
                "sub" => chip.sub(l, &x, &y)?,
                "mul" => chip.mul(l, &x, &y, None)?,
                _ => chip.div(l, &x, &y)?,
            };
            out_elem(ctx, ng, l, &r)
        }
        // chains leaving operands un-normalised before the multiplication
        "add_mul" | "sub_mul" => {
            let x = in_elem(ctx, chip, ng, l)?;
            let y = in_elem(ctx, chip, ng, l)?;
            let w = in_elem(ctx, chip, ng, l)?;
            let t = if op == "add_mul" { chip.add(l, &x, &y)? } else { chip.sub(l, &x, &y)? };
            let r = chip.mul(l, &t, &w, None)?;
            out_elem(ctx, ng, l, &r)
        }
        "neg" | "inv" | "square" => {
            let x = in_elem(ctx, chip, ng, l)?;
            let r = match op {
                "neg" => chip.neg(l, &x)?,
                "inv" => chip.inv(l, &x)?,
                _ => chip.square(l, &x)?,
            };
            out_elem(ctx, ng, l, &r)
        }
        "add_constant" | "mul_by_constant" => {
            let x = in_elem(ctx, chip, ng, l)?;
            let c: K = k_of(&s.p_big("c"));
            let r = if op == "add_constant" { chip.add_constant(l, &x, c)? } else { chip.mul_by_constant(l, &x, c)? };
            out_elem(ctx, ng, l, &r)
        }
        "is_equal" | "is_zero" => {
            let x = in_elem(ctx, chip, ng, l)?;
            let b = if op == "is_equal" {
                let y = in_elem(ctx, chip, ng, l)?;
                chip.is_equal(l, &x, &y)?
            } else {
                chip.is_zero(l, &x)?
            };
            out_bit(ctx, ng, l, &b)
        }
        // un-normalised operands in equality tests
        "add_is_equal" => {
            let x = in_elem(ctx, chip, ng, l)?;
            let y = in_elem(ctx, chip, ng, l)?;
            let w = in_elem(ctx, chip, ng, l)?;
            let t = chip.add(l, &x, &y)?;
            let b = chip.is_equal(l, &t, &w)?;
            out_bit(ctx, ng, l, &b)
        }
        // a `select` between a well-formed element and an un-normalised sum, then a consumer that relies on
        // the bounds bookkeeping of the selected element (normalisation before is_zero / exposure)
        "add_select_is_zero" | "add_select_pi" => {
            let c = in_bit(ctx, ng, l)?;
            let x = in_elem(ctx, chip, ng, l)?;
            let y = in_elem(ctx, chip, ng, l)?;
            let z = in_elem(ctx, chip, ng, l)?;
            let w = in_elem(ctx, chip, ng, l)?;
            let t = chip.add(l, &x, &y)?;
            let t = chip.add(l, &t, &z)?;
            let r = chip.select(l, &c, &w, &t)?;
            if op == "add_select_is_zero" {
                let b = chip.is_zero(l, &r)?;
                out_bit(ctx, ng, l, &b)
            } else {
                let pis = chip.as_public_input(l, &r)?;
                for p in pis.iter() {
                    ctx.expose(ng, l, p, false)?;
                }
                Ok(())
            }
        }
        "assert_equal" | "assert_not_equal" => {
            let x = in_elem(ctx, chip, ng, l)?;
            let y = in_elem(ctx, chip, ng, l)?;
            if op == "assert_equal" { chip.assert_equal(l, &x, &y) } else { chip.assert_not_equal(l, &x, &y) }
        }
        "assert_zero" | "assert_non_zero" => {
            let x = in_elem(ctx, chip, ng, l)?;
            if op == "assert_zero" { chip.assert_zero(l, &x) } else { chip.assert_non_zero(l, &x) }
        }
        "assert_equal_to_fixed" => {
            let x = in_elem(ctx, chip, ng, l)?;
            chip.assert_equal_to_fixed(l, &x, k_of(&s.p_big("c")))
        }
        "select" => {
            let c = in_bit(ctx, ng, l)?;
            let x = in_elem(ctx, chip, ng, l)?;
            let y = in_elem(ctx, chip, ng, l)?;
            let r = chip.select(l, &c, &x, &y)?;
            out_elem(ctx, ng, l, &r)
        }
        "to_le_bits" => {
            let x = in_elem(ctx, chip, ng, l)?;
            let bits = chip.assigned_to_le_bits(l, &x, s.p_opt_usize("nb"), s.p_bool("canon"))?;
            for b in bits.iter() {
                out_bit(ctx, ng, l, b)?;
            }
            Ok(())
        }
        "to_le_bytes" => {
            let x = in_elem(ctx, chip, ng, l)?;
            let bytes: Vec<AssignedByte<F>> = chip.assigned_to_le_bytes(l, &x, s.p_opt_usize("nb"))?;
            for b in bytes.iter() {
                let n: AssignedNative<F> = b.clone().into();
                ctx.expose(ng, l, &n, false)?;
            }
            Ok(())
        }
        "from_le_bits" => {
            let n = s.p_usize("n");
            let bits = (0..n).map(|_| in_bit(ctx, ng, l)).collect::<Result<Vec<_>, _>>()?;
            let r: AF<K> = chip.assigned_from_le_bits(l, &bits)?;
            out_elem(ctx, ng, l, &r)
        }
        "from_le_bytes" => {
            let n = s.p_usize("n");
            let mut bytes = Vec::with_capacity(n);
            for _ in 0..n {
                let v = ctx.take();
                let b: AssignedByte<F> = ng.assign(l, Value::known(v.to_u32_digits().first().copied().unwrap_or(0) as u8))?;
                let c: AssignedNative<F> = b.clone().into();
                ctx.expose(ng, l, &c, true)?;
                bytes.push(b);
            }
            let r: AF<K> = chip.assigned_from_le_bytes(l, &bytes)?;
            out_elem(ctx, ng, l, &r)
        }
        // sign of an element (RFC 9380: sgn0 = canonical residue mod 2)
        "sgn0" => {
            let x = in_elem(ctx, chip, ng, l)?;
            let b = chip.sgn0(l, &x)?;
            out_bit(ctx, ng, l, &b)
        }
        // the chip's own public-input exposure of an element (C08): instance = (limbs of x, chip PI of x)
        "pi" | "add_pi" => {
            let x = in_elem(ctx, chip, ng, l)?;
            let t = if op == "add_pi" {
                let y = in_elem(ctx, chip, ng, l)?;
                chip.add(l, &x, &y)?
            } else {
                x
            };
            let pis = chip.as_public_input(l, &t)?;
            for p in pis.iter() {
                ctx.expose(ng, l, p, false)?;
            }
            Ok(())
        }
        _ => panic!("unknown foreign op {op}"),
    }
}

pub fn modulus_of<K: PrimeField>() -> BigUint {
    BigUint::from_bytes_le((-K::ONE).to_repr().as_ref()) + 1u8
}
