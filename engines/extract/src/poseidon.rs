//! Family "poseidon" (C07): harness circuits around the REAL `PoseidonChip` / `VarLenPoseidonGadget`, the
//! Poseidon parameters of the current tree exported for the specification, and the REAL off-circuit
//! Poseidon (`permutation_cpu`, `SpongeCPU`, `HashCPU`) executed on a symbolic field (`symp::PF`).
//!
//! Circuit ops (instance column = inputs then outputs, in call order):
//!   perm                      WIDTH state cells via the real `assign`; all WIDTH outputs of the real in-circuit
//!                             permutation (hook H10 `verif_permutation`)
//!   hash      p.n=<n>         `HashInstructions::hash` of n assigned cells; the digest
//!   sponge    p.script=a2.s1  `SpongeInstructions` init(None) then absorb k / squeeze k steps; every squeezed cell
//!   varhash   p.max=<M> p.len=<L> [p.filler=<v>]
//!                             `VarHashInstructions::varhash` of an `AssignedVector<_, _, M, RATE>` created by the real
//!                             `assign_with_filler`; inputs = the M buffer cells and the length cell (hook H7), output = digest
//! CPU ops (no circuit; JSON printed directly):
//!   cpu_perm | cpu_hash p.n | cpu_sponge p.script      symbolic run (linear forms over pow5 atoms), or with
//!   p.concrete=1 the same real code at Fq on `in=`.

use std::cell::RefCell;

use ff::PrimeField;
use midnight_circuits::{
    field::{decomposition::chip::P2RDecompositionChip, NativeChip, NativeGadget},
    hash::poseidon::{
        constants::PoseidonField, permutation_cpu, round_skips::PreComputedRoundCPU, PoseidonChip, VarLenPoseidonGadget,
    },
    instructions::{
        hash::{HashCPU, HashInstructions, VarHashInstructions},
        sponge::{SpongeCPU, SpongeInstructions},
        vector::VectorInstructions,
        *,
    },
    testing_utils::FromScratch,
    types::{AssignedNative, AssignedVector},
    vec::vector_gadget::VectorGadget,
};
use midnight_curves::Fq as F;
use midnight_proofs::{
    circuit::{Layouter, SimpleFloorPlanner, Value},
    plonk::{Circuit, ConstraintSystem, Error},
};
use serde_json::{json, Value as J};

use crate::{
    dump::hex,
    native::{f_of, IoLog, Spec},
};

type NG = NativeGadget<F, P2RDecompositionChip<F>, NativeChip<F>>;
type PC = PoseidonChip<F>;

pub const WIDTH: usize = PC::register_size();
pub const RATE: usize = PC::rate();
pub const R_F: usize = PC::nb_full_rounds();
pub const R_P: usize = PC::nb_partial_rounds();

/// The Poseidon instance of the current tree, read through the crate's public `PoseidonField` constants.
pub fn constants_json() -> J {
    let mds: Vec<Vec<String>> = <F as PoseidonField>::MDS.iter().map(|r| r.iter().map(hex).collect()).collect();
    let rc: Vec<Vec<String>> = <F as PoseidonField>::ROUND_CONSTANTS.iter().map(|r| r.iter().map(hex).collect()).collect();
    json!({"width": WIDTH, "rate": RATE, "r_f": R_F, "r_p": R_P, "mds": mds, "round_constants": rc,
           "modulus": <F as PrimeField>::MODULUS})
}

/// absorb/squeeze script "a2.s1.a0.s2" -> [(true, 2), (false, 1), ...]
fn parse_script(s: &str) -> Vec<(bool, usize)> {
    s.split('.')
        .filter(|x| !x.is_empty())
        .map(|st| {
            let (k, n) = st.split_at(1);
            (k == "a", n.parse().expect("script count"))
        })
        .collect()
}

/// The real off-circuit code, generic in the field: run at Fq (concrete) and at `symp::PF` (symbolic).
pub fn run_cpu<Fx: PoseidonField>(op: &str, spec: &Spec, ins: &[Fx]) -> Vec<Fx> {
    match op {
        "cpu_perm" | "perm" => {
            let pre = PreComputedRoundCPU::<Fx>::init();
            let mut st: Vec<Fx> = ins[..WIDTH].to_vec();
            permutation_cpu(&pre, &mut st);
            st
        }
        "cpu_hash" | "hash" => vec![<PoseidonChip<Fx> as HashCPU<Fx, Fx>>::hash(ins)],
        "cpu_sponge" | "sponge" => {
            let script = parse_script(spec.params.get("script").expect("p.script"));
            let mut st = <PoseidonChip<Fx> as SpongeCPU<Fx, Fx>>::init(None);
            let mut out = vec![];
            let mut next = 0;
            for (is_abs, n) in script {
                if is_abs {
                    <PoseidonChip<Fx> as SpongeCPU<Fx, Fx>>::absorb(&mut st, &ins[next..next + n]);
                    next += n;
                } else {
                    for _ in 0..n {
                        out.push(<PoseidonChip<Fx> as SpongeCPU<Fx, Fx>>::squeeze(&mut st));
                    }
                }
            }
            out
        }
        "varhash" => {
            // the off-circuit counterpart of the variable-length gadget is the plain hash of the payload
            let len = spec.p_usize("len");
            vec![<VarLenPoseidonGadget<Fx> as HashCPU<Fx, Fx>>::hash(&ins[..len])]
        }
        o => panic!("unknown poseidon cpu op {o}"),
    }
}

pub fn nb_inputs(spec: &Spec) -> usize {
    match spec.op.as_str() {
        "perm" | "cpu_perm" => WIDTH,
        "hash" | "cpu_hash" => spec.p_usize("n"),
        "sponge" | "cpu_sponge" => parse_script(spec.params.get("script").expect("p.script")).iter().filter(|x| x.0).map(|x| x.1).sum(),
        "varhash" => spec.p_usize("len"),
        o => panic!("unknown poseidon op {o}"),
    }
}

/// CPU ops: print JSON and return.
pub fn cpu_main(spec: &Spec) {
    let n = nb_inputs(spec);
    if spec.p_bool("concrete") {
        let ins: Vec<F> = (0..n).map(|i| f_of(&spec.ins[i])).collect();
        let out = run_cpu::<F>(&spec.op, spec, &ins);
        println!("{}", json!({"concrete": true, "out": out.iter().map(hex).collect::<Vec<_>>(), "constants": constants_json()}));
        return;
    }
    // symbolic run on a big stack (the lifted constant tables are large temporaries)
    let spec = spec.clone();
    let h = std::thread::Builder::new()
        .stack_size(256 << 20)
        .spawn(move || {
            symp::reset(n);
            let ins: Vec<symp::PF> = (0..n).map(symp::PF::var).collect();
            let out = run_cpu::<symp::PF>(&spec.op, &spec, &ins);
            let mut j = symp::dump(&out);
            j["constants"] = constants_json();
            j["op"] = J::String(spec.op.clone());
            println!("{}", j);
        })
        .unwrap();
    if h.join().is_err() {
        std::process::exit(3);
    }
}

// ------------------------------------------------------------------------------------------------
// circuits

#[derive(Clone)]
pub struct PoseidonCircuit {
    pub spec: Spec,
    pub io: IoLog,
}

struct Ctx<'a> {
    spec: &'a Spec,
    io: IoLog,
    next: RefCell<usize>,
}

impl<'a> Ctx<'a> {
    fn take(&self) -> F {
        let mut i = self.next.borrow_mut();
        let v = self.spec.ins.get(*i).unwrap_or_else(|| panic!("op {} needs more inputs", self.spec.op)).clone();
        *i += 1;
        f_of(&v)
    }
    fn expose(&self, ng: &NG, l: &mut impl Layouter<F>, x: &AssignedNative<F>, is_in: bool) -> Result<(), Error> {
        x.value().map(|v| self.io.0.borrow_mut().push((is_in, *v)));
        ng.constrain_as_public_input(l, x)
    }
    fn input(&self, ng: &NG, l: &mut impl Layouter<F>) -> Result<AssignedNative<F>, Error> {
        let x: AssignedNative<F> = ng.assign(l, Value::known(self.take()))?;
        self.expose(ng, l, &x, true)?;
        Ok(x)
    }
}

fn varhash<const M: usize>(
    ctx: &Ctx,
    ng: &NG,
    vg: &VectorGadget<F>,
    vl: &VarLenPoseidonGadget<F>,
    l: &mut impl Layouter<F>,
) -> Result<(), Error> {
    let len = ctx.spec.p_usize("len");
    let payload: Vec<F> = (0..len).map(|_| ctx.take()).collect();
    let filler = ctx.spec.params.get("filler").map(|s| f_of(&crate::native::parse_big(s)));
    let v: AssignedVector<F, AssignedNative<F>, M, RATE> =
        <VectorGadget<F> as VectorInstructions<F, AssignedNative<F>, M, RATE>>::assign_with_filler(vg, l, Value::known(payload), filler)?;
    for b in v.verif_buffer().iter() {
        ctx.expose(ng, l, b, true)?;
    }
    ctx.expose(ng, l, v.verif_len(), true)?;
    let d = <VarLenPoseidonGadget<F> as VarHashInstructions<F, M, AssignedNative<F>, AssignedNative<F>, RATE>>::varhash(vl, l, &v)?;
    ctx.expose(ng, l, &d, false)
}

impl Circuit<F> for PoseidonCircuit {
    type Config = <VarLenPoseidonGadget<F> as FromScratch<F>>::Config;
    type FloorPlanner = SimpleFloorPlanner;
    type Params = ();
    fn without_witnesses(&self) -> Self {
        unreachable!()
    }
    fn configure(meta: &mut ConstraintSystem<F>) -> Self::Config {
        let ci = meta.instance_column();
        let i = meta.instance_column();
        <VarLenPoseidonGadget<F> as FromScratch<F>>::configure_from_scratch(meta, &[ci, i])
    }
    fn synthesize(&self, config: Self::Config, mut layouter: impl Layouter<F>) -> Result<(), Error> {
        let ng: NG = <NG as FromScratch<F>>::new_from_scratch(&config.0);
        let chip: PC = <PC as FromScratch<F>>::new_from_scratch(&config.1);
        let vl = VarLenPoseidonGadget::<F>::new(&chip, &ng);
        let vg = VectorGadget::<F>::new(&ng);
        self.io.0.borrow_mut().clear();
        let ctx = Ctx { spec: &self.spec, io: self.io.clone(), next: RefCell::new(0) };
        let l = &mut layouter;
        let s = &self.spec;
        match s.op.as_str() {
            "perm" => {
                let ins = (0..WIDTH).map(|_| ctx.input(&ng, l)).collect::<Result<Vec<_>, _>>()?;
                let outs = chip.verif_permutation(l, &ins)?;
                for o in outs.iter() {
                    ctx.expose(&ng, l, o, false)?;
                }
            }
            "hash" => {
                let ins = (0..s.p_usize("n")).map(|_| ctx.input(&ng, l)).collect::<Result<Vec<_>, _>>()?;
                let d = <PC as HashInstructions<F, AssignedNative<F>, AssignedNative<F>>>::hash(&chip, l, &ins)?;
                ctx.expose(&ng, l, &d, false)?;
            }
            "sponge" => {
                let script = parse_script(s.params.get("script").expect("p.script"));
                let mut st = <PC as SpongeInstructions<F, AssignedNative<F>, AssignedNative<F>>>::init(&chip, l, None)?;
                for (is_abs, n) in script {
                    if is_abs {
                        let ins = (0..n).map(|_| ctx.input(&ng, l)).collect::<Result<Vec<_>, _>>()?;
                        chip.absorb(l, &mut st, &ins)?;
                    } else {
                        for _ in 0..n {
                            let o = chip.squeeze(l, &mut st)?;
                            ctx.expose(&ng, l, &o, false)?;
                        }
                    }
                }
            }
            "varhash" => match s.p_usize("max") {
                2 => varhash::<2>(&ctx, &ng, &vg, &vl, l)?,
                4 => varhash::<4>(&ctx, &ng, &vg, &vl, l)?,
                6 => varhash::<6>(&ctx, &ng, &vg, &vl, l)?,
                m => panic!("varhash: unsupported MAX_LEN {m}"),
            },
            op => panic!("unknown poseidon op {op}"),
        }
        ng.load_from_scratch(l)?;
        chip.load_from_scratch(l)
    }
}

/// `extra` of a circuit op: the parameters and, as translator validation only, what the real off-circuit
/// code returns on the honest inputs.
pub fn extra(spec: &Spec) -> J {
    let n = nb_inputs(spec);
    let ins: Vec<F> = (0..n).map(|i| f_of(&spec.ins[i])).collect();
    let cpu = run_cpu::<F>(&spec.op, spec, &ins);
    json!({"family": "poseidon", "op": spec.op, "params": spec.params, "constants": constants_json(),
           "cpu_out": cpu.iter().map(hex).collect::<Vec<_>>()})
}

// ------------------------------------------------------------------------------------------------
// symbolic field: linear forms over pow5 atoms

pub mod symp {
    //! `PF`: a value is either a constant of Fq (inline) or a handle to a hash-consed entry
    //! `(c0 + sum c_i t_i)^pw`, pw in {1,2,3,4}, where every t_i is an input variable or an ATOM
    //! `pow5(<linear form>)` (hash-consed on the form). `+`,`-`, scaling are exact on pw = 1 entries. A product
    //! of two non-constant values is accepted only when both are powers of the SAME linear form (the S-box
    //! `x.square().square() * x`); total power 5 becomes the atom. Anything else PANICS with a message:
    //! an untranslatable path is reported, never approximated.
    use core::iter::{Product, Sum};
    use core::ops::{Add, AddAssign, Mul, MulAssign, Neg, Sub, SubAssign};
    use std::collections::HashMap;
    use std::sync::Mutex;

    use ff::{Field, PrimeField};
    use midnight_circuits::{hash::poseidon::constants::PoseidonField, CircuitField};
    use midnight_curves::Fq;
    use num_bigint::BigUint;
    use rand_core::RngCore;
    use serde_json::{json, Value as J};
    use subtle::{Choice, ConditionallySelectable, ConstantTimeEq, CtOption};

    #[derive(Clone, Copy, Debug, PartialEq, Eq)]
    pub struct PF {
        tag: u32,
        c: Fq,
    }

    #[derive(Clone, Debug, PartialEq, Eq)]
    struct Form {
        pw: u8,
        c0: Fq,
        terms: Vec<(u32, Fq)>, // sorted by index, non-zero coefficients
    }

    #[derive(Default)]
    struct Arena {
        nvars: usize,
        forms: Vec<Form>,
        index: HashMap<Vec<u8>, u32>,
        atoms: Vec<u32>, // atom j = pow5(forms[atoms[j]]) (that entry has pw = 1)
        atom_of: HashMap<u32, u32>,
    }

    static ARENA: Mutex<Option<Arena>> = Mutex::new(None);

    fn key(f: &Form) -> Vec<u8> {
        let mut k = vec![f.pw];
        k.extend_from_slice(f.c0.to_repr().as_ref());
        for (i, c) in &f.terms {
            k.extend_from_slice(&i.to_le_bytes());
            k.extend_from_slice(c.to_repr().as_ref());
        }
        k
    }

    pub fn reset(nvars: usize) {
        *ARENA.lock().unwrap() = Some(Arena { nvars, ..Default::default() });
    }

    fn with<R>(f: impl FnOnce(&mut Arena) -> R) -> R {
        let mut g = ARENA.lock().unwrap();
        f(g.as_mut().expect("symp::reset not called"))
    }

    impl Arena {
        fn form(&self, x: PF) -> Form {
            if x.tag == 0 {
                Form { pw: 1, c0: x.c, terms: vec![] }
            } else {
                self.forms[(x.tag - 1) as usize].clone()
            }
        }
        fn intern(&mut self, f: Form) -> PF {
            if f.terms.is_empty() {
                // a power of a constant is a constant
                let mut v = Fq::ONE;
                for _ in 0..f.pw {
                    v *= f.c0;
                }
                return PF::constant(v);
            }
            let k = key(&f);
            if let Some(t) = self.index.get(&k) {
                return PF { tag: *t, c: Fq::ZERO };
            }
            self.forms.push(f);
            let t = self.forms.len() as u32;
            self.index.insert(k, t);
            PF { tag: t, c: Fq::ZERO }
        }
        fn atom(&mut self, base: Form) -> PF {
            assert_eq!(base.pw, 1);
            let b = self.intern(base);
            assert!(b.tag != 0);
            let j = match self.atom_of.get(&b.tag) {
                Some(j) => *j,
                None => {
                    self.atoms.push(b.tag);
                    let j = (self.atoms.len() - 1) as u32;
                    self.atom_of.insert(b.tag, j);
                    j
                }
            };
            self.intern(Form { pw: 1, c0: Fq::ZERO, terms: vec![(self.nvars as u32 + j, Fq::ONE)] })
        }
    }

    impl PF {
        pub const fn constant(c: Fq) -> PF {
            PF { tag: 0, c }
        }
        pub fn var(i: usize) -> PF {
            with(|a| {
                assert!(i < a.nvars);
                a.intern(Form { pw: 1, c0: Fq::ZERO, terms: vec![(i as u32, Fq::ONE)] })
            })
        }
        fn konst(&self) -> Fq {
            if self.tag != 0 {
                panic!("concretisation: the value of a non-constant symbolic Poseidon form was requested")
            }
            self.c
        }
        fn add_(self, o: PF, sign: Fq) -> PF {
            if self.tag == 0 && o.tag == 0 {
                return PF::constant(self.c + sign * o.c);
            }
            with(|a| {
                let (x, y) = (a.form(self), a.form(o));
                if x.pw != 1 || y.pw != 1 {
                    panic!("non-linear: sum involving a bare power (pw {} / {}) of a form", x.pw, y.pw)
                }
                let mut terms: Vec<(u32, Fq)> = vec![];
                let (mut i, mut j) = (0, 0);
                while i < x.terms.len() || j < y.terms.len() {
                    let (idx, c) = if j >= y.terms.len() || (i < x.terms.len() && x.terms[i].0 < y.terms[j].0) {
                        i += 1;
                        x.terms[i - 1]
                    } else if i >= x.terms.len() || y.terms[j].0 < x.terms[i].0 {
                        j += 1;
                        (y.terms[j - 1].0, sign * y.terms[j - 1].1)
                    } else {
                        i += 1;
                        j += 1;
                        (x.terms[i - 1].0, x.terms[i - 1].1 + sign * y.terms[j - 1].1)
                    };
                    if c != Fq::ZERO {
                        terms.push((idx, c));
                    }
                }
                a.intern(Form { pw: 1, c0: x.c0 + sign * y.c0, terms })
            })
        }
        fn mul_(self, o: PF) -> PF {
            if self.tag == 0 && o.tag == 0 {
                return PF::constant(self.c * o.c);
            }
            if self.tag == 0 || o.tag == 0 {
                let (k, x) = if self.tag == 0 { (self.c, o) } else { (o.c, self) };
                if k == Fq::ZERO {
                    return PF::constant(Fq::ZERO);
                }
                return with(|a| {
                    let f = a.form(x);
                    if f.pw != 1 {
                        panic!("non-linear: constant multiple of a bare power of a form")
                    }
                    a.intern(Form { pw: 1, c0: f.c0 * k, terms: f.terms.iter().map(|(i, c)| (*i, *c * k)).collect() })
                });
            }
            with(|a| {
                let (x, y) = (a.form(self), a.form(o));
                if x.c0 != y.c0 || x.terms != y.terms {
                    panic!("non-linear: product of two different non-constant forms (not an S-box)")
                }
                let pw = x.pw + y.pw;
                if pw == 5 {
                    a.atom(Form { pw: 1, c0: x.c0, terms: x.terms })
                } else if pw < 5 {
                    a.intern(Form { pw, c0: x.c0, terms: x.terms })
                } else {
                    panic!("non-linear: power {pw} of a form (S-box is x^5)")
                }
            })
        }
    }

    fn hx(f: &Fq) -> String {
        crate::dump::hex(f)
    }

    /// atoms (each: the linear form under pow5), outputs (linear forms). Term index < nvars = input variable,
    /// otherwise atom number index - nvars.
    pub fn dump(outs: &[PF]) -> J {
        with(|a| {
            let fj = |f: &Form| -> J {
                json!({"pw": f.pw, "c0": hx(&f.c0), "terms": f.terms.iter().map(|(i, c)| json!([i, hx(c)])).collect::<Vec<_>>()})
            };
            let atoms: Vec<J> = a.atoms.iter().map(|t| fj(&a.forms[(*t - 1) as usize])).collect();
            let outs: Vec<J> = outs.iter().map(|o| fj(&a.form(*o))).collect();
            json!({"symbolic": true, "nvars": a.nvars, "atoms": atoms, "out": outs, "arena_forms": a.forms.len()})
        })
    }

    impl Default for PF {
        fn default() -> Self {
            PF::constant(Fq::ZERO)
        }
    }
    impl ConstantTimeEq for PF {
        fn ct_eq(&self, o: &Self) -> Choice {
            Choice::from((self == o) as u8)
        }
    }
    impl ConditionallySelectable for PF {
        fn conditional_select(a: &Self, b: &Self, c: Choice) -> Self {
            if bool::from(c) {
                *b
            } else {
                *a
            }
        }
    }
    macro_rules! binop {
        ($tr:ident, $f:ident, $atr:ident, $af:ident, $e:expr) => {
            impl $tr for PF {
                type Output = PF;
                fn $f(self, o: PF) -> PF {
                    let f: fn(PF, PF) -> PF = $e;
                    f(self, o)
                }
            }
            impl<'a> $tr<&'a PF> for PF {
                type Output = PF;
                fn $f(self, o: &'a PF) -> PF {
                    let f: fn(PF, PF) -> PF = $e;
                    f(self, *o)
                }
            }
            impl $atr for PF {
                fn $af(&mut self, o: PF) {
                    let f: fn(PF, PF) -> PF = $e;
                    *self = f(*self, o)
                }
            }
            impl<'a> $atr<&'a PF> for PF {
                fn $af(&mut self, o: &'a PF) {
                    let f: fn(PF, PF) -> PF = $e;
                    *self = f(*self, *o)
                }
            }
        };
    }
    binop!(Add, add, AddAssign, add_assign, |a, b| a.add_(b, Fq::ONE));
    binop!(Sub, sub, SubAssign, sub_assign, |a, b| a.add_(b, -Fq::ONE));
    binop!(Mul, mul, MulAssign, mul_assign, |a, b| a.mul_(b));
    impl Neg for PF {
        type Output = PF;
        fn neg(self) -> PF {
            PF::constant(Fq::ZERO).add_(self, -Fq::ONE)
        }
    }
    impl Sum for PF {
        fn sum<I: Iterator<Item = PF>>(i: I) -> PF {
            i.fold(PF::ZERO, |a, b| a + b)
        }
    }
    impl<'a> Sum<&'a PF> for PF {
        fn sum<I: Iterator<Item = &'a PF>>(i: I) -> PF {
            i.fold(PF::ZERO, |a, b| a + *b)
        }
    }
    impl Product for PF {
        fn product<I: Iterator<Item = PF>>(i: I) -> PF {
            i.fold(PF::ONE, |a, b| a * b)
        }
    }
    impl<'a> Product<&'a PF> for PF {
        fn product<I: Iterator<Item = &'a PF>>(i: I) -> PF {
            i.fold(PF::ONE, |a, b| a * *b)
        }
    }
    impl Field for PF {
        const ZERO: Self = PF::constant(Fq::ZERO);
        const ONE: Self = PF::constant(Fq::ONE);
        fn random(_: impl RngCore) -> Self {
            panic!("PF::random")
        }
        fn square(&self) -> Self {
            *self * *self
        }
        fn double(&self) -> Self {
            *self + *self
        }
        fn invert(&self) -> CtOption<Self> {
            self.konst().invert().map(PF::constant)
        }
        fn sqrt_ratio(_: &Self, _: &Self) -> (Choice, Self) {
            unimplemented!("sqrt_ratio on PF")
        }
    }
    impl From<u64> for PF {
        fn from(v: u64) -> Self {
            PF::constant(Fq::from(v))
        }
    }
    impl PrimeField for PF {
        type Repr = <Fq as PrimeField>::Repr;
        fn from_repr(r: Self::Repr) -> CtOption<Self> {
            Fq::from_repr(r).map(PF::constant)
        }
        fn to_repr(&self) -> Self::Repr {
            self.konst().to_repr()
        }
        fn is_odd(&self) -> Choice {
            self.konst().is_odd()
        }
        const MODULUS: &'static str = <Fq as PrimeField>::MODULUS;
        const NUM_BITS: u32 = Fq::NUM_BITS;
        const CAPACITY: u32 = Fq::CAPACITY;
        const TWO_INV: Self = PF::constant(Fq::TWO_INV);
        const MULTIPLICATIVE_GENERATOR: Self = PF::constant(Fq::MULTIPLICATIVE_GENERATOR);
        const S: u32 = Fq::S;
        const ROOT_OF_UNITY: Self = PF::constant(Fq::ROOT_OF_UNITY);
        const ROOT_OF_UNITY_INV: Self = PF::constant(Fq::ROOT_OF_UNITY_INV);
        const DELTA: Self = PF::constant(Fq::DELTA);
    }
    impl CircuitField for PF {
        const NUM_BYTES: usize = <Fq as CircuitField>::NUM_BYTES;
        type Bytes = <Fq as CircuitField>::Bytes;
        fn to_biguint(&self) -> BigUint {
            <Fq as CircuitField>::to_biguint(&self.konst())
        }
        fn from_biguint(n: &BigUint) -> Option<Self> {
            <Fq as CircuitField>::from_biguint(n).map(PF::constant)
        }
        fn to_bytes_le(&self) -> Self::Bytes {
            <Fq as CircuitField>::to_bytes_le(&self.konst())
        }
        fn to_bytes_be(&self) -> Self::Bytes {
            <Fq as CircuitField>::to_bytes_be(&self.konst())
        }
        fn from_bytes_le(bytes: &[u8]) -> Option<Self> {
            <Fq as CircuitField>::from_bytes_le(bytes).map(PF::constant)
        }
    }

    // The Poseidon parameters of the symbolic field ARE those of Fq in the current tree (lifted at compile time).
    const W: usize = super::WIDTH;
    const NR: usize = super::R_F + super::R_P;
    const fn lift_mds(m: [[Fq; W]; W]) -> [[PF; W]; W] {
        let mut r = [[PF::constant(Fq::ZERO); W]; W];
        let mut i = 0;
        while i < W {
            let mut j = 0;
            while j < W {
                r[i][j] = PF::constant(m[i][j]);
                j += 1;
            }
            i += 1;
        }
        r
    }
    const fn lift_rc(m: [[Fq; W]; NR]) -> [[PF; W]; NR] {
        let mut r = [[PF::constant(Fq::ZERO); W]; NR];
        let mut i = 0;
        while i < NR {
            let mut j = 0;
            while j < W {
                r[i][j] = PF::constant(m[i][j]);
                j += 1;
            }
            i += 1;
        }
        r
    }
    impl PoseidonField for PF {
        const MDS: [[Self; W]; W] = lift_mds(<Fq as PoseidonField>::MDS);
        const ROUND_CONSTANTS: [[Self; W]; NR] = lift_rc(<Fq as PoseidonField>::ROUND_CONSTANTS);
    }
}
