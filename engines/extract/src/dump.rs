//! Dump the constraint system a real synthesis emitted (engine C, DESIGN 2.C).
//!
//! Everything is read through `MockProver`'s public accessors after a real `MockProver::run` of the
//! harness circuit: gate polynomials with the concrete fixed/selector values of each usable row
//! substituted, lookup tables and per-row input expressions, copy constraints (permutation assembly),
//! the honest assignment and the instance column.

use std::collections::{BTreeMap, BTreeSet};

use ff::PrimeField;
use midnight_proofs::{
    dev::{CellValue, InstanceValue, MockProver},
    plonk::{Any, Expression},
};
use serde_json::{json, Value as J};

pub fn hex<F: PrimeField>(f: &F) -> String {
    let r = f.to_repr();
    let mut s = String::with_capacity(2 + 2 * r.as_ref().len());
    s.push_str("0x");
    for b in r.as_ref().iter().rev() {
        s.push_str(&format!("{:02x}", b));
    }
    s
}

/// A cell: (kind, column, row); kind 0 = advice, 1 = instance.
pub type Cell = (u8, u32, u32);

pub fn cell_name(c: &Cell) -> String {
    format!("{}{}_{}", if c.0 == 0 { "a" } else { "i" }, c.1, c.2)
}

#[derive(Clone, Debug)]
pub struct Poly<F: PrimeField>(pub BTreeMap<Vec<Cell>, F>);

impl<F: PrimeField> Poly<F> {
    fn c(f: F) -> Self {
        let mut m = BTreeMap::new();
        if f != F::ZERO {
            m.insert(vec![], f);
        }
        Poly(m)
    }
    fn var(c: Cell) -> Self {
        let mut m = BTreeMap::new();
        m.insert(vec![c], F::ONE);
        Poly(m)
    }
    fn add(mut self, o: Poly<F>) -> Self {
        for (k, v) in o.0 {
            let e = self.0.entry(k.clone()).or_insert(F::ZERO);
            *e += v;
            if *e == F::ZERO {
                self.0.remove(&k);
            }
        }
        self
    }
    fn scale(mut self, f: F) -> Self {
        if f == F::ZERO {
            return Poly(BTreeMap::new());
        }
        for v in self.0.values_mut() {
            *v *= f;
        }
        self
    }
    fn mul(self, o: Poly<F>) -> Self {
        let mut r = Poly(BTreeMap::new());
        if self.0.is_empty() || o.0.is_empty() {
            return r;
        }
        for (k1, v1) in &self.0 {
            for (k2, v2) in &o.0 {
                let mut k = k1.clone();
                k.extend(k2.iter().cloned());
                k.sort();
                let e = r.0.entry(k.clone()).or_insert(F::ZERO);
                *e += *v1 * *v2;
                if *e == F::ZERO {
                    r.0.remove(&k);
                }
            }
        }
        r
    }
    pub fn is_zero(&self) -> bool {
        self.0.is_empty()
    }
    pub fn as_const(&self) -> Option<F> {
        if self.0.is_empty() {
            return Some(F::ZERO);
        }
        if self.0.len() == 1 {
            if let Some(v) = self.0.get(&vec![]) {
                return Some(*v);
            }
        }
        None
    }
    pub fn json(&self) -> J {
        J::Array(
            self.0
                .iter()
                .map(|(k, v)| json!([hex(v), k.iter().map(cell_name).collect::<Vec<_>>()]))
                .collect(),
        )
    }
}

pub struct Dumper<'a, F: PrimeField + Ord + ff::FromUniformBytes<64>> {
    pub prover: &'a MockProver<F>,
    n: usize,
}

impl<'a, F: PrimeField + Ord + From<u64> + ff::FromUniformBytes<64>> Dumper<'a, F> {
    pub fn new(prover: &'a MockProver<F>) -> Self {
        let n = prover.fixed().first().map(|c| c.len()).unwrap_or_else(|| prover.advice()[0].len());
        Dumper { prover, n }
    }

    fn fx(&self, col: usize, row: usize) -> F {
        match self.prover.fixed()[col][row] {
            CellValue::Assigned(v) => v,
            _ => F::ZERO,
        }
    }

    fn rot(&self, row: usize, r: i32) -> usize {
        (row as i64 + r as i64).rem_euclid(self.n as i64) as usize
    }

    pub fn eval(&self, e: &Expression<F>, row: usize) -> Poly<F> {
        e.evaluate(
            &|c| Poly::c(c),
            &|_| panic!("selector expression survived compression"),
            &|q| Poly::c(self.fx(q.column_index(), self.rot(row, q.rotation().0))),
            &|q| Poly::var((0, q.column_index() as u32, self.rot(row, q.rotation().0) as u32)),
            &|q| Poly::var((1, q.column_index() as u32, self.rot(row, q.rotation().0) as u32)),
            &|_| panic!("challenge in expression: not supported by the extractor"),
            &|a| a.scale(-F::ONE),
            &|a, b| a.add(b),
            &|a, b| a.mul(b),
            &|a, s| a.scale(s),
        )
    }

    pub fn dump(&self) -> J {
        let p = self.prover;
        let cs = p.cs();
        let usable = p.usable_rows().clone();
        // gates
        let mut gates = vec![];
        for g in cs.gates() {
            for (pi, poly) in g.polynomials().iter().enumerate() {
                for row in usable.clone() {
                    let q = self.eval(poly, row);
                    if !q.is_zero() {
                        gates.push(json!({"gate": format!("{}:{}", g.name(), pi), "row": row, "poly": q.json()}));
                    }
                }
            }
        }
        // trash arguments: selector != 0 => every constraint expression is 0 on that row
        for t in cs.trashcans() {
            for row in usable.clone() {
                let s = self.eval(t.selector(), row);
                let sc = s.as_const().expect("trash selector must be fixed");
                if sc == F::ZERO {
                    continue;
                }
                for (ci, e) in t.constraint_expressions().iter().enumerate() {
                    let q = self.eval(e, row);
                    if !q.is_zero() {
                        gates.push(json!({"gate": format!("trash:{}:{}", t.name(), ci), "row": row, "poly": q.json()}));
                    }
                }
            }
        }
        // lookups
        let mut lks = vec![];
        for (li, l) in cs.lookups().iter().enumerate() {
            // dynamic lookups (advice cells in the table expressions) are supported only when identically
            // satisfied row by row: the input tuple is syntactically the table tuple of the SAME row on every
            // usable row (a `lookup_any` of columns on themselves whose selector is never enabled, e.g. the
            // foreign ECC chip's multi_select). Anything else still panics below.
            if usable.clone().all(|row| {
                l.input_expressions().iter().zip(l.table_expressions().iter()).all(|(i, t)| self.eval(i, row).0 == self.eval(t, row).0)
            }) {
                continue;
            }
            let mut table: BTreeSet<Vec<F>> = BTreeSet::new();
            for row in usable.clone() {
                let t: Vec<F> = l
                    .table_expressions()
                    .iter()
                    .map(|e| self.eval(e, row).as_const().expect("table expression must be fixed"))
                    .collect();
                table.insert(t);
            }
            // the default (all selectors off) input tuple
            let mut inputs = vec![];
            for row in usable.clone() {
                let ps: Vec<Poly<F>> = l.input_expressions().iter().map(|e| self.eval(e, row)).collect();
                if ps.iter().all(|q| q.as_const().is_some()) {
                    let t: Vec<F> = ps.iter().map(|q| q.as_const().unwrap()).collect();
                    assert!(table.contains(&t), "constant lookup input not in table: lookup {} row {}", l.name(), row);
                    continue;
                }
                inputs.push(json!({"row": row, "exprs": ps.iter().map(|q| q.json()).collect::<Vec<_>>()}));
            }
            if inputs.is_empty() {
                continue;
            }
            let tj: Vec<J> = table.iter().map(|t| J::Array(t.iter().map(|f| J::String(hex(f))).collect())).collect();
            lks.push(json!({"name": format!("{}#{}", l.name(), li), "table": tj, "inputs": inputs}));
        }
        // copy constraints
        let perm = p.permutation();
        let cols: Vec<String> = perm
            .columns()
            .iter()
            .map(|c| {
                let t = match c.column_type() {
                    Any::Advice(_) => "a",
                    Any::Fixed => "f",
                    Any::Instance => "i",
                };
                format!("{}{}", t, c.index())
            })
            .collect();
        let mut copies = vec![];
        {
            use midnight_proofs::plonk::permutation::Assembly;
            let _: &Assembly = perm;
            // mapping() yields parallel iterators; collect them
            let maps: Vec<Vec<(usize, usize)>> = {
                use rayon_shim::collect_mapping;
                collect_mapping(perm)
            };
            for (ci, col) in maps.iter().enumerate() {
                for (r, (cj, r2)) in col.iter().enumerate() {
                    if (*cj, *r2) != (ci, r) {
                        copies.push(json!([format!("{}_{}", cols[ci], r), format!("{}_{}", cols[*cj], r2)]));
                    }
                }
            }
        }
        // honest values
        let mut adv = serde_json::Map::new();
        for (c, col) in p.advice().iter().enumerate() {
            for (r, v) in col.iter().enumerate() {
                if let CellValue::Assigned(v) = v {
                    adv.insert(format!("a{}_{}", c, r), J::String(hex(v)));
                }
            }
        }
        let mut fxs = serde_json::Map::new();
        for (c, col) in p.fixed().iter().enumerate() {
            for (r, v) in col.iter().enumerate() {
                if let CellValue::Assigned(v) = v {
                    if *v != F::ZERO {
                        fxs.insert(format!("f{}_{}", c, r), J::String(hex(v)));
                    }
                }
            }
        }
        let mut inst = serde_json::Map::new();
        for (c, col) in p.instance().iter().enumerate() {
            for (r, v) in col.iter().enumerate() {
                if let InstanceValue::Assigned(v) = v {
                    inst.insert(format!("i{}_{}", c, r), J::String(hex(v)));
                }
            }
        }
        json!({
            "n": self.n, "usable": usable.end,
            "gates": gates, "lookups": lks, "copies": copies,
            "advice": adv, "fixed": fxs, "instance": inst,
            "num_advice": cs.num_advice_columns(), "num_fixed": cs.num_fixed_columns(),
            "num_instance": cs.num_instance_columns(),
            "nb_lookups": cs.lookups().len(), "nb_gates": cs.gates().len(),
        })
    }
}

mod rayon_shim {
    use midnight_proofs::plonk::permutation::Assembly;
    use rayon::iter::ParallelIterator;
    pub fn collect_mapping(a: &Assembly) -> Vec<Vec<(usize, usize)>> {
        a.mapping().map(|c| c.collect::<Vec<_>>()).collect()
    }
}
