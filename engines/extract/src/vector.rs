//! Family "vector" (C04, VectorInstructions / VectorGadget): harness circuits around ONE operation on an
//! `AssignedVector<F, T, M, A>` (T = AssignedNative or AssignedByte).
//!
//! Every vector comes in through the real `VectorGadget::assign` (`assign_with_filler` when p.filler is given);
//! its M buffer cells and its length cell (hook H7 `verif_buffer` / `verif_len`) are then exposed on the plain
//! instance column as INPUTS (buffer[0..M] then len). Results (cells / bits / the buffer and length of a
//! result vector) are exposed likewise as OUTPUTS. Nothing here computes an expected result.
//!
//!   cx vector op=<name> p.M=<M> p.A=<A> [p.t=native|byte] [p.n=..] [p.L=..] [p.c=v0:v1:..] [p.filler=v]
//!      in=<len>:<e0>:..:<e(M-1)>[:<len2>:<f0>:..:<f(M-1)>]
//! (`in` always carries M element slots per vector; only the first <len> are the payload, so that the
//! alternative inputs of one obligation differ in the witness only).

use std::cell::RefCell;

use midnight_circuits::{
    field::{decomposition::chip::P2RDecompositionChip, NativeChip, NativeGadget},
    instructions::*,
    testing_utils::FromScratch,
    types::{AssignedBit, AssignedByte, AssignedNative, AssignedVector, InnerValue, Vectorizable},
    vec::vector_gadget::VectorGadget,
};
use midnight_curves::Fq as F;
use midnight_proofs::{
    circuit::{Layouter, SimpleFloorPlanner, Value},
    plonk::{Circuit, ConstraintSystem, Error},
};
use num_bigint::BigUint;

use crate::native::{f_of, IoLog, Spec};

type NG = NativeGadget<F, P2RDecompositionChip<F>, NativeChip<F>>;
type VG = VectorGadget<F>;

/// Element types of the vectors driven here.
pub trait Elem: Vectorizable + Clone + Into<AssignedNative<F>>
where
    Self::Element: Copy,
{
    fn of_big(b: &BigUint) -> Self::Element;
}
impl Elem for AssignedNative<F> {
    fn of_big(b: &BigUint) -> F {
        f_of(b)
    }
}
impl Elem for AssignedByte<F> {
    fn of_big(b: &BigUint) -> u8 {
        b.to_u32_digits().first().copied().unwrap_or(0) as u8
    }
}

#[derive(Clone)]
pub struct VectorCircuit {
    pub spec: Spec,
    pub io: IoLog,
}

struct Ctx<'a> {
    spec: &'a Spec,
    io: IoLog,
    next: RefCell<usize>,
}

impl<'a> Ctx<'a> {
    fn take(&self) -> BigUint {
        let mut i = self.next.borrow_mut();
        let v = self.spec.ins.get(*i).unwrap_or_else(|| panic!("op {} needs more inputs", self.spec.op)).clone();
        *i += 1;
        v
    }
    fn expose(&self, ng: &NG, l: &mut impl Layouter<F>, x: &AssignedNative<F>, is_in: bool) -> Result<(), Error> {
        x.value().map(|v| self.io.0.borrow_mut().push((is_in, *v)));
        ng.constrain_as_public_input(l, x)
    }
    fn expose_bit(&self, ng: &NG, l: &mut impl Layouter<F>, b: &AssignedBit<F>) -> Result<(), Error> {
        let n: AssignedNative<F> = b.clone().into();
        self.expose(ng, l, &n, false)
    }
    /// buffer[0..M] then len
    fn expose_vec<T: Elem, const M: usize, const A: usize>(
        &self,
        ng: &NG,
        l: &mut impl Layouter<F>,
        v: &AssignedVector<F, T, M, A>,
        is_in: bool,
    ) -> Result<(), Error>
    where
        T::Element: Copy,
    {
        for c in v.verif_buffer().iter() {
            let n: AssignedNative<F> = c.clone().into();
            self.expose(ng, l, &n, is_in)?;
        }
        self.expose(ng, l, v.verif_len(), is_in)
    }
    /// <len> then M element slots -> the payload (first <len> slots)
    fn take_payload<T: Elem, const M: usize>(&self) -> Vec<T::Element>
    where
        T::Element: Copy,
    {
        let len: usize = self.take().to_u32_digits().first().copied().unwrap_or(0) as usize;
        let slots: Vec<BigUint> = (0..M).map(|_| self.take()).collect();
        slots.iter().take(len).map(T::of_big).collect()
    }
    fn in_vec<T: Elem, const M: usize, const A: usize>(
        &self,
        ng: &NG,
        vg: &VG,
        l: &mut impl Layouter<F>,
    ) -> Result<AssignedVector<F, T, M, A>, Error>
    where
        T::Element: Copy,
        VG: VectorInstructions<F, T, M, A> + AssignmentInstructions<F, AssignedVector<F, T, M, A>>,
    {
        let payload = self.take_payload::<T, M>();
        let v: AssignedVector<F, T, M, A> = match self.spec.params.get("filler") {
            Some(f) => vg.assign_with_filler(l, Value::known(payload), Some(T::of_big(&crate::native::parse_big(f))))?,
            None => vg.assign(l, Value::known(payload))?,
        };
        self.expose_vec(ng, l, &v, true)?;
        Ok(v)
    }
}

fn run<T: Elem, const M: usize, const A: usize, const L: usize>(
    ctx: &Ctx,
    ng: &NG,
    vg: &VG,
    l: &mut impl Layouter<F>,
) -> Result<(), Error>
where
    T::Element: Copy,
    VG: VectorInstructions<F, T, M, A>
        + AssignmentInstructions<F, AssignedVector<F, T, M, A>>
        + EqualityInstructions<F, AssignedVector<F, T, M, A>>
        + AssertionInstructions<F, AssignedVector<F, T, M, A>>,
    AssignedVector<F, T, M, A>: InnerValue<Element = Vec<T::Element>>,
{
    let s = ctx.spec;
    let constant = || -> Vec<T::Element> { s.p_bigs("c").iter().map(T::of_big).collect() };
    match s.op.as_str() {
        "assign" => {
            let _v: AssignedVector<F, T, M, A> = ctx.in_vec(ng, vg, l)?;
            Ok(())
        }
        "get_limits" => {
            let v: AssignedVector<F, T, M, A> = ctx.in_vec(ng, vg, l)?;
            let (a, b) = vg.get_limits(l, &v)?;
            ctx.expose(ng, l, &a, false)?;
            ctx.expose(ng, l, &b, false)
        }
        "padding_flag" => {
            let v: AssignedVector<F, T, M, A> = ctx.in_vec(ng, vg, l)?;
            let flags = vg.padding_flag(l, &v)?;
            for b in flags.iter() {
                ctx.expose_bit(ng, l, b)?;
            }
            Ok(())
        }
        "trim_beginning" => {
            let v: AssignedVector<F, T, M, A> = ctx.in_vec(ng, vg, l)?;
            let r = vg.trim_beginning(l, &v, s.p_usize("n"))?;
            ctx.expose_vec(ng, l, &r, false)
        }
        "resize" => {
            assert_eq!(s.p_usize("L"), L, "resize target not instantiated");
            let v: AssignedVector<F, T, M, A> = ctx.in_vec(ng, vg, l)?;
            let r: AssignedVector<F, T, L, A> = vg.resize::<L>(l, v)?;
            ctx.expose_vec(ng, l, &r, false)
        }
        "is_equal" | "is_not_equal" => {
            let x: AssignedVector<F, T, M, A> = ctx.in_vec(ng, vg, l)?;
            let y: AssignedVector<F, T, M, A> = ctx.in_vec(ng, vg, l)?;
            let b = if s.op == "is_equal" { vg.is_equal(l, &x, &y)? } else { vg.is_not_equal(l, &x, &y)? };
            ctx.expose_bit(ng, l, &b)
        }
        "assert_equal" | "assert_not_equal" => {
            let x: AssignedVector<F, T, M, A> = ctx.in_vec(ng, vg, l)?;
            let y: AssignedVector<F, T, M, A> = ctx.in_vec(ng, vg, l)?;
            if s.op == "assert_equal" {
                vg.assert_equal(l, &x, &y)
            } else {
                vg.assert_not_equal(l, &x, &y)
            }
        }
        "is_equal_to_fixed" | "is_not_equal_to_fixed" => {
            let x: AssignedVector<F, T, M, A> = ctx.in_vec(ng, vg, l)?;
            let b = if s.op == "is_equal_to_fixed" { vg.is_equal_to_fixed(l, &x, constant())? } else { vg.is_not_equal_to_fixed(l, &x, constant())? };
            ctx.expose_bit(ng, l, &b)
        }
        "assert_equal_to_fixed" | "assert_not_equal_to_fixed" => {
            let x: AssignedVector<F, T, M, A> = ctx.in_vec(ng, vg, l)?;
            if s.op == "assert_equal_to_fixed" {
                vg.assert_equal_to_fixed(l, &x, constant())
            } else {
                vg.assert_not_equal_to_fixed(l, &x, constant())
            }
        }
        op => panic!("unknown vector op {op}"),
    }
}

impl Circuit<F> for VectorCircuit {
    type Config = <NG as FromScratch<F>>::Config;
    type FloorPlanner = SimpleFloorPlanner;
    type Params = ();
    fn without_witnesses(&self) -> Self {
        unreachable!()
    }
    fn configure(meta: &mut ConstraintSystem<F>) -> Self::Config {
        let ci = meta.instance_column();
        let i = meta.instance_column();
        <NG as FromScratch<F>>::configure_from_scratch(meta, &[ci, i])
    }
    fn synthesize(&self, config: Self::Config, mut layouter: impl Layouter<F>) -> Result<(), Error> {
        let ng = <NG as FromScratch<F>>::new_from_scratch(&config);
        let vg = VectorGadget::new(&ng);
        self.io.0.borrow_mut().clear();
        let ctx = Ctx { spec: &self.spec, io: self.io.clone(), next: RefCell::new(0) };
        let s = &self.spec;
        let (m, a) = (s.p_usize("M"), s.p_usize("A"));
        let lr = s.p_usize_or("L", 2 * m);
        let byte = s.params.get("t").map(|t| t == "byte").unwrap_or(false);
        let l = &mut layouter;
        macro_rules! go {
            ($(($M:literal, $A:literal, $L:literal)),*) => {
                match (m, a, lr, byte) {
                    $( ($M, $A, $L, false) => run::<AssignedNative<F>, $M, $A, $L>(&ctx, &ng, &vg, l)?,
                       ($M, $A, $L, true) => run::<AssignedByte<F>, $M, $A, $L>(&ctx, &ng, &vg, l)?, )*
                    _ => panic!("vector shape (M={m}, A={a}, L={lr}) is not instantiated in the harness"),
                }
            };
        }
        go!((4, 1, 5), (4, 1, 8), (4, 2, 6), (4, 2, 8), (4, 4, 8), (8, 1, 9), (8, 1, 16), (8, 2, 10), (8, 2, 16), (8, 4, 12), (8, 4, 16), (8, 8, 16));
        ng.load_from_scratch(&mut layouter)
    }
}

/// The whole `main` arm of this family (two synthesis passes, keygen view, dump / replay).
pub fn main_arm(spec: Spec, k: u32, replay: Option<String>) {
    use midnight_proofs::dev::MockProver;
    use serde_json::{json, Value as J};
    let io = IoLog::default();
    let circuit = VectorCircuit { spec: spec.clone(), io: io.clone() };
    let _ = MockProver::<F>::run(k, &circuit, vec![vec![], vec![]]).expect("synthesis (pass 1)");
    let rec: Vec<(bool, F)> = io.0.borrow().clone();
    let pi: Vec<F> = rec.iter().map(|x| x.1).collect();
    let prover = MockProver::<F>::run(k, &circuit, vec![vec![], pi]).expect("synthesis (pass 2)");
    let kv = if crate::want_keygen() { crate::keycmp::keygen_view(k, &circuit).unwrap_or_else(|e| json!({"error": format!("{e:?}")})) } else { J::Null };
    crate::finish(prover, rec, replay, json!({"family": "vector", "op": spec.op, "params": spec.params}), kv);
}
