//! Harness circuits for the big-unsigned-integer gadget (C05 BigUint part): family "biguint".
//!
//! One circuit = one operation of the real `BigUintGadget<F, NativeGadget>`. Operands are brought in with
//! the real `assign_biguint(value, nb_bits)` (which range-checks every limb to the bound the gadget
//! records for it) and their LIMBS are put on the plain instance column by the gadget's own
//! `constrain_as_public_input(x, nb_bits)`; results are exposed the same way with the bound the gadget
//! itself derives (`AssignedBigUint::nb_bits()`), which is recorded in `extra.nb_bits` so that the
//! specification can demand "the recorded bound is true". Bits / bytes go through the native gadget as
//! in the other families. Nothing here computes an expected result.
//!
//!   p.bx, p.by, p.bz  declared bit sizes of the operands (assign_biguint's nb_bits)
//!   p.n               exponent (mod_exp) / number of bits or bytes (from_le_*)
//!   p.c               constant (…_to_fixed, assign_fixed)

use std::{cell::RefCell, rc::Rc};

use ff::Field;
use midnight_circuits::{
    biguint::{AssignedBigUint, BigUintGadget},
    field::decomposition::chip::P2RDecompositionConfig,
    instructions::*,
    testing_utils::FromScratch,
    types::{AssignedBit, AssignedByte, AssignedNative, InnerValue},
};
use midnight_curves::Fq as F;
use midnight_proofs::{
    circuit::{Layouter, SimpleFloorPlanner, Value},
    plonk::{Circuit, ConstraintSystem, Error},
};
use num_bigint::BigUint;

use crate::native::{f_of, IoLog, Spec, NG};

/// The gadget's limb size is a crate-private constant: it is recovered from the real off-circuit
/// encoder (`as_public_input(v, nb_bits)` emits `ceil(nb_bits / LOG2_BASE)` limbs), so that the harness
/// follows the tree it is compiled against.
pub fn log2_base() -> u32 {
    (1u32..=256)
        .find(|b| AssignedBigUint::<F>::as_public_input(&BigUint::from(1u8), b + 1).len() == 2)
        .expect("limb size of the BigUint gadget")
}

type BG = BigUintGadget<F, NG>;
type AB = AssignedBigUint<F>;

/// (direction, nb_bits as derived by the gadget, number of instance cells) of every exposed big integer
#[derive(Clone, Default)]
pub struct BitsLog(pub Rc<RefCell<Vec<(bool, u32, usize)>>>);

#[derive(Clone)]
pub struct BigUintCircuit {
    pub spec: Spec,
    pub io: IoLog,
    pub bits: BitsLog,
}

struct BCtx<'a> {
    spec: &'a Spec,
    io: IoLog,
    bits: BitsLog,
    next_in: RefCell<usize>,
}

fn limbs_of(v: &BigUint, n: usize) -> Vec<F> {
    let lb = log2_base();
    let mask = (BigUint::from(1u8) << lb) - 1u8;
    (0..n).map(|i| f_of(&((v >> (lb as usize * i)) & &mask))).collect()
}

impl<'a> BCtx<'a> {
    fn take(&self) -> BigUint {
        let mut i = self.next_in.borrow_mut();
        let v = self.spec.ins.get(*i).unwrap_or_else(|| panic!("op {} needs more than {} inputs", self.spec.op, *i)).clone();
        *i += 1;
        v
    }
    /// the gadget's own exposure of a big integer; the instance values recorded are the base-2^96 digits
    /// of the value the real witness generation produced
    fn expose_big(&self, bg: &BG, l: &mut impl Layouter<F>, x: &AB, is_in: bool) -> Result<(), Error> {
        let nb_bits = x.nb_bits();
        let n = (nb_bits.div_ceil(log2_base())) as usize;
        x.value().map(|v| {
            // a value that does not fit n limbs is recorded truncated: the honest run is then rejected
            // by the real MockProver (reported as honest-rejected), never silently accepted
            for f in limbs_of(&v, n) {
                self.io.0.borrow_mut().push((is_in, f));
            }
        });
        self.bits.0.borrow_mut().push((is_in, nb_bits, n));
        bg.constrain_as_public_input(l, x, nb_bits)
    }
    fn in_big(&self, bg: &BG, l: &mut impl Layouter<F>, nb_bits: u32) -> Result<AB, Error> {
        let v = self.take();
        let x = bg.assign_biguint(l, Value::known(v), nb_bits)?;
        self.expose_big(bg, l, &x, true)?;
        Ok(x)
    }
    fn expose(&self, ng: &NG, l: &mut impl Layouter<F>, x: &AssignedNative<F>, is_in: bool) -> Result<(), Error> {
        x.value().map(|v| self.io.0.borrow_mut().push((is_in, *v)));
        ng.constrain_as_public_input(l, x)
    }
    fn in_bit(&self, ng: &NG, l: &mut impl Layouter<F>) -> Result<AssignedBit<F>, Error> {
        let v = self.take();
        let b: AssignedBit<F> = ng.assign(l, Value::known(v == BigUint::from(1u8)))?;
        let n: AssignedNative<F> = b.clone().into();
        self.expose(ng, l, &n, true)?;
        Ok(b)
    }
    fn in_byte(&self, ng: &NG, l: &mut impl Layouter<F>) -> Result<AssignedByte<F>, Error> {
        let v = self.take();
        let byte: u8 = v.to_u32_digits().first().copied().unwrap_or(0) as u8;
        let b: AssignedByte<F> = ng.assign(l, Value::known(byte))?;
        let n: AssignedNative<F> = b.clone().into();
        self.expose(ng, l, &n, true)?;
        Ok(b)
    }
    fn out_bit(&self, ng: &NG, l: &mut impl Layouter<F>, b: &AssignedBit<F>) -> Result<(), Error> {
        let n: AssignedNative<F> = b.clone().into();
        self.expose(ng, l, &n, false)
    }
}

impl Circuit<F> for BigUintCircuit {
    type Config = P2RDecompositionConfig;
    type FloorPlanner = SimpleFloorPlanner;
    type Params = ();

    fn without_witnesses(&self) -> Self {
        unreachable!()
    }
    fn configure(meta: &mut ConstraintSystem<F>) -> Self::Config {
        let ci = meta.instance_column();
        let i = meta.instance_column();
        <NG as FromScratch<F>>::configure_from_scratch(meta, &[ci, i])
    }
    fn synthesize(&self, config: Self::Config, mut layouter: impl Layouter<F>) -> Result<(), Error> {
        let ng = <NG as FromScratch<F>>::new_from_scratch(&config);
        let bg = BG::new(&ng);
        self.io.0.borrow_mut().clear();
        self.bits.0.borrow_mut().clear();
        let ctx = BCtx { spec: &self.spec, io: self.io.clone(), bits: self.bits.clone(), next_in: RefCell::new(0) };
        run_biguint_op(&ctx, &bg, &ng, &mut layouter)?;
        ng.load_from_scratch(&mut layouter)
    }
}

fn run_biguint_op(ctx: &BCtx, bg: &BG, ng: &NG, l: &mut impl Layouter<F>) -> Result<(), Error> {
    let s = ctx.spec;
    let op = s.op.as_str();
    let bx = s.p_usize_or("bx", 96) as u32;
    let by = s.p_usize_or("by", bx as usize) as u32;
    match op {
        "assign" => {
            let _ = ctx.in_big(bg, l, bx)?;
            Ok(())
        }
        "assign_fixed" => {
            let z = bg.assign_fixed_biguint(l, s.p_big("c"))?;
            ctx.expose_big(bg, l, &z, false)
        }
        "add" | "sub" | "mul" => {
            let x = ctx.in_big(bg, l, bx)?;
            let y = ctx.in_big(bg, l, by)?;
            let z = match op {
                "add" => bg.add(l, &x, &y)?,
                "sub" => bg.sub(l, &x, &y)?,
                _ => bg.mul(l, &x, &y)?,
            };
            ctx.expose_big(bg, l, &z, false)
        }
        // chains: the second operation receives the gadget's own (normalised, wider) result
        "add_add" | "mul_add" | "add_mul" | "add_sub" => {
            let x = ctx.in_big(bg, l, bx)?;
            let y = ctx.in_big(bg, l, by)?;
            let w = ctx.in_big(bg, l, s.p_usize_or("bz", bx as usize) as u32)?;
            let t = if op == "mul_add" { bg.mul(l, &x, &y)? } else { bg.add(l, &x, &y)? };
            let z = match op {
                "add_add" | "mul_add" => bg.add(l, &t, &w)?,
                "add_mul" => bg.mul(l, &t, &w)?,
                _ => bg.sub(l, &t, &w)?,
            };
            ctx.expose_big(bg, l, &z, false)
        }
        "div_rem" => {
            let x = ctx.in_big(bg, l, bx)?;
            let y = ctx.in_big(bg, l, by)?;
            let (q, r) = bg.div_rem(l, &x, &y)?;
            ctx.expose_big(bg, l, &q, false)?;
            ctx.expose_big(bg, l, &r, false)
        }
        "mod_exp" => {
            let x = ctx.in_big(bg, l, bx)?;
            let m = ctx.in_big(bg, l, by)?;
            let z = bg.mod_exp(l, &x, s.p_usize("n") as u64, &m)?;
            ctx.expose_big(bg, l, &z, false)
        }
        "lower_than" | "is_equal" | "is_not_equal" => {
            let x = ctx.in_big(bg, l, bx)?;
            let y = ctx.in_big(bg, l, by)?;
            let b = match op {
                "lower_than" => bg.lower_than(l, &x, &y)?,
                "is_equal" => bg.is_equal(l, &x, &y)?,
                _ => bg.is_not_equal(l, &x, &y)?,
            };
            ctx.out_bit(ng, l, &b)
        }
        "is_equal_to_fixed" | "is_not_equal_to_fixed" | "is_zero" => {
            let x = ctx.in_big(bg, l, bx)?;
            let b = match op {
                "is_equal_to_fixed" => bg.is_equal_to_fixed(l, &x, s.p_big("c"))?,
                "is_not_equal_to_fixed" => bg.is_not_equal_to_fixed(l, &x, s.p_big("c"))?,
                _ => bg.is_zero(l, &x)?,
            };
            ctx.out_bit(ng, l, &b)
        }
        "assert_equal" | "assert_not_equal" => {
            let x = ctx.in_big(bg, l, bx)?;
            let y = ctx.in_big(bg, l, by)?;
            if op == "assert_equal" { bg.assert_equal(l, &x, &y) } else { bg.assert_not_equal(l, &x, &y) }
        }
        "assert_equal_to_fixed" | "assert_not_equal_to_fixed" | "assert_zero" | "assert_non_zero" => {
            let x = ctx.in_big(bg, l, bx)?;
            match op {
                "assert_equal_to_fixed" => bg.assert_equal_to_fixed(l, &x, s.p_big("c")),
                "assert_not_equal_to_fixed" => bg.assert_not_equal_to_fixed(l, &x, s.p_big("c")),
                "assert_zero" => bg.assert_zero(l, &x),
                _ => bg.assert_non_zero(l, &x),
            }
        }
        "select" => {
            let c = ctx.in_bit(ng, l)?;
            let x = ctx.in_big(bg, l, bx)?;
            let y = ctx.in_big(bg, l, by)?;
            let z = bg.select(l, &c, &x, &y)?;
            ctx.expose_big(bg, l, &z, false)
        }
        "to_le_bits" => {
            let x = ctx.in_big(bg, l, bx)?;
            let bits = bg.to_le_bits(l, &x)?;
            for b in bits.iter() {
                ctx.out_bit(ng, l, b)?;
            }
            Ok(())
        }
        "to_le_bytes" => {
            let x = ctx.in_big(bg, l, bx)?;
            let bytes = bg.to_le_bytes(l, &x)?;
            for b in bytes.iter() {
                let n: AssignedNative<F> = b.clone().into();
                ctx.expose(ng, l, &n, false)?;
            }
            Ok(())
        }
        "from_le_bits" => {
            let n = s.p_usize("n");
            let bits = (0..n).map(|_| ctx.in_bit(ng, l)).collect::<Result<Vec<_>, _>>()?;
            let z = bg.from_le_bits(l, &bits)?;
            ctx.expose_big(bg, l, &z, false)
        }
        "from_le_bytes" => {
            let n = s.p_usize("n");
            let bytes = (0..n).map(|_| ctx.in_byte(ng, l)).collect::<Result<Vec<_>, _>>()?;
            let z = bg.from_le_bytes(l, &bytes)?;
            ctx.expose_big(bg, l, &z, false)
        }
        _ => panic!("unknown biguint op {op}"),
    }
}

/// `extra` of the dump: the gadget's own limb size, the bounds it derived for every exposed integer and,
/// for `assign`, the off-circuit public-input encoding of the assigned value.
pub fn extra(spec: &Spec, bits: &BitsLog) -> serde_json::Value {
    let b: Vec<serde_json::Value> = bits
        .0
        .borrow()
        .iter()
        .map(|(is_in, nb, n)| serde_json::json!({"dir": if *is_in { "in" } else { "out" }, "nb_bits": nb, "cells": n}))
        .collect();
    let offpi: Vec<String> = if spec.op == "assign" {
        let nb = spec.p_usize_or("bx", 96) as u32;
        AssignedBigUint::<F>::as_public_input(&spec.ins[0], nb).iter().map(crate::dump::hex).collect()
    } else {
        vec![]
    };
    let _ = F::ZERO;
    serde_json::json!({"family": "biguint", "op": spec.op, "params": spec.params, "log2_base": log2_base(),
        "big": b, "offcircuit_pi": offpi})
}

/// the `biguint` arm of `main` (kept here so that the shared main.rs only gains one line)
pub fn run_family(spec: &Spec, k: u32, replay: Option<String>) {
    use midnight_proofs::dev::MockProver;
    let io = IoLog::default();
    let bits = BitsLog::default();
    let circuit = BigUintCircuit { spec: spec.clone(), io: io.clone(), bits: bits.clone() };
    let _ = MockProver::<F>::run(k, &circuit, vec![vec![], vec![]]).expect("synthesis (pass 1)");
    let rec: Vec<(bool, F)> = io.0.borrow().clone();
    let pi: Vec<F> = rec.iter().map(|x| x.1).collect();
    let prover = MockProver::<F>::run(k, &circuit, vec![vec![], pi]).expect("synthesis (pass 2)");
    let kv = if crate::want_keygen() {
        crate::keycmp::keygen_view(k, &circuit).unwrap_or_else(|e| serde_json::json!({"error": format!("{e:?}")}))
    } else {
        serde_json::Value::Null
    };
    let ex = extra(spec, &bits);
    crate::finish(prover, rec, replay, ex, kv);
}
