//! Family "map" (C04, MapInstructions / MapGadget): harness circuits around the real
//! `MapGadget<F, NativeGadget, H>` with the hash chip H wrapped in a RECORDER.
//!
//! `MapGadget` is generic in its hash chip and touches it only through `HashInstructions::hash(&[a, b])`.
//! The recorder `RH` forwards every call and exposes the two input cells and the output cell of the call on the
//! plain instance column (three "aux" rows per call, direction `out`, in call order, BEFORE the real outputs), so
//! that the specification can name them; exposing a cell adds a copy constraint to a fresh instance cell, which is
//! a free variable of the query, i.e. it does not restrict the system.
//!   p.hash=poseidon   the real `PoseidonChip` computes the digest (the extracted system is the real one; the rows
//!                     that live entirely in the Poseidon chip's own columns are cut out of the dump unless p.cut=0;
//!                     `honest_verify` and replays are always the verdict of the full real MockProver)
//!   p.hash=uf         the digest is assigned as a free advice cell (honest value: the real off-circuit Poseidon),
//!                     nothing constrains it: the hash is an uninterpreted function already at circuit level
//!
//!   cx map op=get|insert|insert_get p.hash=.. [p.pre=k1:v1:k2:v2..] in=<key>:<value>[:<key2>]
//! instance: inputs  = succinct_repr (root) of the initial map, key, [value (insert)], [key2 (insert_get)]
//!           aux     = (a, b, hash(a, b)) per hash call
//!           outputs = get: value ; insert: new root ; insert_get: new root, value2

use std::{cell::RefCell, fmt, rc::Rc};

use ff::Field;
use midnight_circuits::{
    field::{decomposition::chip::P2RDecompositionChip, NativeChip, NativeGadget},
    hash::poseidon::PoseidonChip,
    instructions::{
        hash::{HashCPU, HashInstructions},
        map::{MapCPU, MapInstructions},
        *,
    },
    map::{cpu::MapMt, map_gadget::MapGadget},
    testing_utils::FromScratch,
    types::AssignedNative,
};
use midnight_curves::Fq as F;
use midnight_proofs::{
    circuit::{Layouter, SimpleFloorPlanner, Value},
    dev::MockProver,
    plonk::{Circuit, ConstraintSystem, Error},
};
use serde_json::{json, Value as J};

use crate::native::{f_of, IoLog, Spec};

type NG = NativeGadget<F, P2RDecompositionChip<F>, NativeChip<F>>;
type PC = PoseidonChip<F>;

/// The recording hash chip handed to the real MapGadget.
#[derive(Clone)]
pub struct RH {
    inner: Option<PC>,
    ng: NG,
    io: IoLog,
    calls: Rc<RefCell<usize>>,
}

impl fmt::Debug for RH {
    fn fmt(&self, f: &mut fmt::Formatter<'_>) -> fmt::Result {
        write!(f, "RH(poseidon={})", self.inner.is_some())
    }
}

impl HashCPU<F, F> for RH {
    fn hash(inputs: &[F]) -> F {
        <PC as HashCPU<F, F>>::hash(inputs)
    }
}

impl RH {
    fn expose(&self, l: &mut impl Layouter<F>, x: &AssignedNative<F>) -> Result<(), Error> {
        x.value().map(|v| self.io.0.borrow_mut().push((false, *v)));
        self.ng.constrain_as_public_input(l, x)
    }
}

impl HashInstructions<F, AssignedNative<F>, AssignedNative<F>> for RH {
    fn hash(&self, l: &mut impl Layouter<F>, inputs: &[AssignedNative<F>]) -> Result<AssignedNative<F>, Error> {
        assert_eq!(inputs.len(), 2, "the recorder expects MapGadget to hash pairs");
        let out = match &self.inner {
            Some(p) => p.hash(l, inputs)?,
            None => {
                let v: Value<Vec<F>> = Value::from_iter(inputs.iter().map(|x| x.value().copied()));
                self.ng.assign(l, v.map(|v| <PC as HashCPU<F, F>>::hash(&v)))?
            }
        };
        for c in inputs {
            self.expose(l, c)?;
        }
        self.expose(l, &out)?;
        *self.calls.borrow_mut() += 1;
        Ok(out)
    }
}

#[derive(Clone)]
pub struct MapCircuit {
    pub spec: Spec,
    pub io: IoLog,
    pub calls: Rc<RefCell<usize>>,
    pub hash_cols: Rc<RefCell<Vec<usize>>>,
}

#[derive(Clone, Debug)]
pub struct MapConfig {
    ng: <NG as FromScratch<F>>::Config,
    pc: Option<<PC as FromScratch<F>>::Config>,
    hash_cols: Vec<usize>,
}

#[derive(Clone, Debug, Default)]
pub struct MParams {
    poseidon: bool,
}

fn poseidon_mode(spec: &Spec) -> bool {
    match spec.params.get("hash").map(|s| s.as_str()).unwrap_or("uf") {
        "poseidon" => true,
        "uf" => false,
        h => panic!("unknown hash mode {h}"),
    }
}

impl Circuit<F> for MapCircuit {
    type Config = MapConfig;
    type FloorPlanner = SimpleFloorPlanner;
    type Params = MParams;
    fn without_witnesses(&self) -> Self {
        unreachable!()
    }
    fn params(&self) -> MParams {
        MParams { poseidon: poseidon_mode(&self.spec) }
    }
    fn configure(_meta: &mut ConstraintSystem<F>) -> Self::Config {
        unreachable!()
    }
    fn configure_with_params(meta: &mut ConstraintSystem<F>, params: MParams) -> Self::Config {
        let ci = meta.instance_column();
        let i = meta.instance_column();
        let ng = <NG as FromScratch<F>>::configure_from_scratch(meta, &[ci, i]);
        let n0 = meta.num_advice_columns();
        let pc = if params.poseidon { Some(<PC as FromScratch<F>>::configure_from_scratch(meta, &[ci, i])) } else { None };
        let n1 = meta.num_advice_columns();
        MapConfig { ng, pc, hash_cols: (n0..n1).collect() }
    }
    fn synthesize(&self, config: Self::Config, mut layouter: impl Layouter<F>) -> Result<(), Error> {
        let ng = <NG as FromScratch<F>>::new_from_scratch(&config.ng);
        let pc = config.pc.as_ref().map(|c| <PC as FromScratch<F>>::new_from_scratch(c));
        self.io.0.borrow_mut().clear();
        *self.calls.borrow_mut() = 0;
        *self.hash_cols.borrow_mut() = config.hash_cols.clone();
        let rh = RH { inner: pc.clone(), ng: ng.clone(), io: self.io.clone(), calls: self.calls.clone() };
        let s = &self.spec;
        let l = &mut layouter;
        let expose = |l: &mut _, x: &AssignedNative<F>, is_in: bool| -> Result<(), Error> {
            x.value().map(|v| self.io.0.borrow_mut().push((is_in, *v)));
            ng.constrain_as_public_input(l, x)
        };

        // the off-circuit map the prover starts from
        let mut mt = MapMt::<F, RH>::new(&F::ZERO);
        let pre: Vec<F> = s.p_bigs("pre").iter().map(f_of).collect();
        for kv in pre.chunks(2) {
            mt.insert(&kv[0], &kv[1]);
        }
        let mut mg = MapGadget::<F, NG, RH>::new(&ng, &rh);
        mg.init(l, Value::known(mt))?;
        expose(l, &mg.succinct_repr(), true)?;
        let key: AssignedNative<F> = ng.assign(l, Value::known(f_of(&s.ins[0])))?;
        expose(l, &key, true)?;
        match s.op.as_str() {
            "get" => {
                let v = mg.get(l, &key)?;
                expose(l, &v, false)?;
            }
            "insert" | "insert_get" => {
                let val: AssignedNative<F> = ng.assign(l, Value::known(f_of(&s.ins[1])))?;
                expose(l, &val, true)?;
                let key2 = if s.op == "insert_get" {
                    let k2: AssignedNative<F> = ng.assign(l, Value::known(f_of(&s.ins[2])))?;
                    expose(l, &k2, true)?;
                    Some(k2)
                } else {
                    None
                };
                mg.insert(l, &key, &val)?;
                let root2 = mg.succinct_repr();
                let v2 = match &key2 {
                    Some(k2) => Some(mg.get(l, k2)?),
                    None => None,
                };
                expose(l, &root2, false)?;
                if let Some(v2) = v2 {
                    expose(l, &v2, false)?;
                }
            }
            op => panic!("unknown map op {op}"),
        }
        ng.load_from_scratch(&mut layouter)?;
        if let Some(p) = &pc {
            p.load_from_scratch(&mut layouter)?;
        }
        Ok(())
    }
}

/// is every cell of this extracted row ("a<col>_<row>" names) in one of the hash chip's own columns?
fn row_in_cols(g: &J, cols: &[usize]) -> bool {
    let mut any = false;
    for term in g["poly"].as_array().unwrap() {
        for c in term[1].as_array().unwrap() {
            let name = c.as_str().unwrap();
            let (kind, rest) = name.split_at(1);
            if kind != "a" {
                return false;
            }
            let col: usize = rest.split_once('_').unwrap().0.parse().unwrap();
            if !cols.contains(&col) {
                return false;
            }
            any = true;
        }
    }
    any
}

pub fn main_arm(spec: Spec, k: u32, replay: Option<String>) {
    let io = IoLog::default();
    let circuit = MapCircuit { spec: spec.clone(), io: io.clone(), calls: Default::default(), hash_cols: Default::default() };
    let _ = MockProver::<F>::run(k, &circuit, vec![vec![], vec![]]).expect("synthesis (pass 1)");
    let rec: Vec<(bool, F)> = io.0.borrow().clone();
    let pi: Vec<F> = rec.iter().map(|x| x.1).collect();
    let prover = MockProver::<F>::run(k, &circuit, vec![vec![], pi]).expect("synthesis (pass 2)");
    let kv = if crate::want_keygen() { crate::keycmp::keygen_view(k, &circuit).unwrap_or_else(|e| json!({"error": format!("{e:?}")})) } else { J::Null };
    let ncalls = *circuit.calls.borrow();
    let hash_cols = circuit.hash_cols.borrow().clone();
    let n_in = rec.iter().filter(|x| x.0).count();
    // aux rows: 3 per call, directly after the inputs
    let calls: Vec<J> = (0..ncalls)
        .map(|c| {
            let r = n_in + 3 * c;
            json!({"ins": [format!("i1_{}", r), format!("i1_{}", r + 1)], "out": format!("i1_{}", r + 2)})
        })
        .collect();
    let cut = poseidon_mode(&spec) && spec.params.get("cut").map(|s| s != "0").unwrap_or(true);
    let extra = json!({"family": "map", "op": spec.op, "params": spec.params, "hash_calls": calls, "n_aux": 3 * ncalls,
                       "hash_advice_cols": hash_cols, "cut": cut, "tree_height": 128});
    if replay.is_some() || !cut {
        return crate::finish(prover, rec, replay, extra, kv);
    }
    // dump with the rows of the hash chip's own columns cut out (they are replaced by `out = Hf(a, b)` on the
    // specification side); everything else as in `crate::finish`
    let verify_ok = prover.verify().is_ok();
    let d = crate::dump::Dumper::new(&prover);
    let mut out = d.dump();
    let all = out["gates"].as_array().unwrap().clone();
    let total = all.len();
    let kept: Vec<J> = all.into_iter().filter(|g| !row_in_cols(g, &hash_cols)).collect();
    let mut extra = extra;
    extra["cut_rows"] = json!(total - kept.len());
    out["gates"] = J::Array(kept);
    let iorows: Vec<J> = rec
        .iter()
        .enumerate()
        .map(|(r, (is_in, v))| json!({"row": r, "dir": if *is_in { "in" } else { "out" }, "value": crate::dump::hex(v)}))
        .collect();
    out["io"] = J::Array(iorows);
    out["honest_verify"] = J::Bool(verify_ok);
    out["extra"] = extra;
    out["keygen"] = kv;
    println!("{}", out);
}
