//! cx — engine-C extractor / replayer.
//!
//!   cx <family> op=<name> [k=<log2 rows>] [in=<v0:v1:...>] [p.<param>=<value> ...] [replay=<file>]
//!
//! Prints one JSON object: the constraint system the real chip code emitted for the operation, the
//! honest assignment, and the instance rows in (inputs, outputs) call order. With `replay=<file>`
//! (a JSON map cell -> hex value) the listed advice / instance cells of the real `MockProver` are
//! overwritten (hook H2) and the verdict of the real `MockProver::verify()` is printed instead.

mod biguint;
mod dump;
mod edwards;
mod foreign;
mod foreign_ecc;
mod keycmp;
mod map;
mod native;
mod poseidon;
mod pubin;
#[cfg(has_h13)]
mod sha256pad;
mod vector;
mod zkirfam;

use std::collections::BTreeMap;

use midnight_curves::Fq as F;
use midnight_proofs::dev::MockProver;
use serde_json::{json, Value as J};

fn want_keygen() -> bool {
    std::env::args().any(|a| a == "keygen=1")
}

fn parse_args() -> (String, native::Spec, u32, Option<String>) {
    let args: Vec<String> = std::env::args().collect();
    let family = args.get(1).expect("family").clone();
    let mut spec = native::Spec::default();
    let mut k = 10u32;
    let mut replay = None;
    for a in &args[2..] {
        let (key, val) = a.split_once('=').unwrap_or_else(|| panic!("bad arg {a}"));
        match key {
            "op" => spec.op = val.to_string(),
            "k" => k = val.parse().unwrap(),
            "in" => spec.ins = val.split(':').filter(|x| !x.is_empty()).map(native::parse_big).collect(),
            "replay" => replay = Some(val.to_string()),
            "keygen" => {}
            _ if key.starts_with("p.") => {
                spec.params.insert(key[2..].to_string(), val.to_string());
            }
            _ => panic!("unknown arg {a}"),
        }
    }
    (family, spec, k, replay)
}

fn finish(prover: MockProver<F>, io: Vec<(bool, F)>, replay: Option<String>, extra: J, keyview: J) {
    #[allow(unused_mut)]
    let mut prover = prover;
    if let Some(path) = replay {
        let ov: BTreeMap<String, String> = serde_json::from_str(&std::fs::read_to_string(&path).unwrap()).unwrap();
        let mut applied = 0;
        for (cell, val) in ov.iter() {
            let v = native::f_of(&native::parse_big(val));
            let (kind, rest) = cell.split_at(1);
            let (c, r) = rest.split_once('_').unwrap();
            let (c, r): (usize, usize) = (c.parse().unwrap(), r.parse().unwrap());
            match kind {
                "a" => {
                    prover.advice_mut()[c][r] = midnight_proofs::dev::CellValue::Assigned(v);
                    applied += 1;
                }
                "i" => {
                    prover.instance_mut()[c][r] = midnight_proofs::dev::InstanceValue::Assigned(v);
                    applied += 1;
                }
                _ => panic!("cannot override cell {cell}"),
            }
        }
        let res = prover.verify();
        let ok = res.is_ok();
        let fails: Vec<String> = res.err().map(|v| v.iter().take(4).map(|f| format!("{:?}", f).chars().take(300).collect()).collect()).unwrap_or_default();
        println!("{}", json!({"replay": true, "applied": applied, "accepted": ok, "failures": fails}));
        return;
    }
    let verify_ok = prover.verify().is_ok();
    let d = dump::Dumper::new(&prover);
    let mut out = d.dump();
    let iorows: Vec<J> = io
        .iter()
        .enumerate()
        .map(|(r, (is_in, v))| json!({"row": r, "dir": if *is_in { "in" } else { "out" }, "value": dump::hex(v)}))
        .collect();
    out["io"] = J::Array(iorows);
    out["honest_verify"] = J::Bool(verify_ok);
    out["extra"] = extra;
    out["keygen"] = keyview;
    println!("{}", out);
}

fn main() {
    let (family, spec, k, replay) = parse_args();
    match family.as_str() {
        "native" => {
            let io = native::IoLog::default();
            let circuit = native::NativeCircuit { spec: spec.clone(), io: io.clone() };
            // pass 1: record the instance column the real witness generation implies
            let _ = MockProver::<F>::run(k, &circuit, vec![vec![], vec![]]).expect("synthesis (pass 1)");
            let rec: Vec<(bool, F)> = io.0.borrow().clone();
            let pi: Vec<F> = rec.iter().map(|x| x.1).collect();
            let prover = MockProver::<F>::run(k, &circuit, vec![vec![], pi]).expect("synthesis (pass 2)");
            let kv = if want_keygen() { keycmp::keygen_view(k, &circuit).unwrap_or_else(|e| json!({"error": format!("{e:?}")})) } else { J::Null };
            finish(prover, rec, replay, json!({"family": "native", "op": spec.op, "params": spec.params}), kv);
        }
        "foreign" => {
            use midnight_circuits::field::foreign::params::{FieldEmulationParams, MultiEmulationParams};
            macro_rules! go {
                ($K:ty) => {{
                    let io = native::IoLog::default();
                    let circuit = foreign::ForeignCircuit::<$K> { spec: spec.clone(), io: io.clone(), _k: std::marker::PhantomData };
                    let _ = MockProver::<F>::run(k, &circuit, vec![vec![], vec![]]).expect("synthesis (pass 1)");
                    let rec: Vec<(bool, F)> = io.0.borrow().clone();
                    let pi: Vec<F> = rec.iter().map(|x| x.1).collect();
                    let prover = MockProver::<F>::run(k, &circuit, vec![vec![], pi]).expect("synthesis (pass 2)");
                    let moduli: Vec<String> = <MultiEmulationParams as FieldEmulationParams<F, $K>>::moduli().iter().map(|m| m.to_string()).collect();
                    let offpi: Vec<String> = if spec.op == "pi" {
                        use midnight_circuits::types::Instantiable;
                        let kv: $K = foreign::k_of(&spec.ins[0]);
                        <midnight_circuits::types::AssignedField<F, $K, MultiEmulationParams> as Instantiable<F>>::as_public_input(&kv).iter().map(dump::hex).collect()
                    } else { vec![] };
                    let extra = json!({"family": "foreign", "op": spec.op, "params": spec.params, "offcircuit_pi": offpi,
                        "emulated_modulus": <$K as ff::PrimeField>::MODULUS,
                        "log2_base": <MultiEmulationParams as FieldEmulationParams<F, $K>>::LOG2_BASE,
                        "nb_limbs": <MultiEmulationParams as FieldEmulationParams<F, $K>>::NB_LIMBS,
                        "moduli": moduli});
                    let kv = if want_keygen() { keycmp::keygen_view(k, &circuit).unwrap_or_else(|e| json!({"error": format!("{e:?}")})) } else { J::Null };
                    finish(prover, rec, replay, extra, kv);
                }};
            }
            match spec.params.get("field").map(|s| s.as_str()).unwrap_or("k256fp") {
                "k256fp" => go!(midnight_curves::k256::Fp),
                "k256fq" => go!(midnight_curves::k256::Fq),
                "blsfp" => go!(midnight_curves::Fp),
                "c25519fp" => go!(midnight_curves::curve25519::Fp),
                "c25519fq" => go!(midnight_curves::curve25519::Scalar),
                f => panic!("unknown emulated field {f}"),
            }
        }
        "edwards" => {
            let io = native::IoLog::default();
            let circuit = edwards::EdwardsCircuit { spec: spec.clone(), io: io.clone() };
            let _ = MockProver::<F>::run(k, &circuit, vec![vec![], vec![]]).expect("synthesis (pass 1)");
            let rec: Vec<(bool, F)> = io.0.borrow().clone();
            let pi: Vec<F> = rec.iter().map(|x| x.1).collect();
            let prover = MockProver::<F>::run(k, &circuit, vec![vec![], pi]).expect("synthesis (pass 2)");
            let kv = if want_keygen() { keycmp::keygen_view(k, &circuit).unwrap_or_else(|e| json!({"error": format!("{e:?}")})) } else { J::Null };
            finish(prover, rec, replay, json!({"family": "edwards", "op": spec.op, "params": spec.params, "curve_d": edwards::curve_d_hex()}), kv);
        }
        "poseidon" => {
            if spec.op.starts_with("cpu_") {
                poseidon::cpu_main(&spec);
                return;
            }
            let io = native::IoLog::default();
            let circuit = poseidon::PoseidonCircuit { spec: spec.clone(), io: io.clone() };
            let _ = MockProver::<F>::run(k, &circuit, vec![vec![], vec![]]).expect("synthesis (pass 1)");
            let rec: Vec<(bool, F)> = io.0.borrow().clone();
            let pi: Vec<F> = rec.iter().map(|x| x.1).collect();
            let prover = MockProver::<F>::run(k, &circuit, vec![vec![], pi]).expect("synthesis (pass 2)");
            let kv = if want_keygen() { keycmp::keygen_view(k, &circuit).unwrap_or_else(|e| json!({"error": format!("{e:?}")})) } else { J::Null };
            finish(prover, rec, replay, poseidon::extra(&spec), kv);
        }
        "zkir" => {
            let path = spec.params.get("prog").expect("p.prog=<file>").clone();
            let nin = spec.p_usize_or("nin", 0);
            let (zr, mut extra) = zkirfam::run(&path, spec.params.get("k").map(|s| s.parse().unwrap()));
            match zr.prover {
                Some(prover) => {
                    let rec: Vec<(bool, F)> = zr.instance.iter().enumerate().map(|(i, v)| (i < nin, *v)).collect();
                    finish(prover, rec, replay, extra, zr.keyview.clone());
                }
                None => {
                    extra["no_circuit"] = J::Bool(true);
                    println!("{}", json!({"extra": extra, "honest_verify": false, "no_circuit": true}));
                }
            }
        }
        "fecc" => {
            macro_rules! go {
                ($C:ty) => {{
                    let io = native::IoLog::default();
                    let circuit = foreign_ecc::FEccCircuit::<$C> { spec: spec.clone(), io: io.clone(), _c: std::marker::PhantomData };
                    let _ = MockProver::<F>::run(k, &circuit, vec![vec![], vec![]]).expect("synthesis (pass 1)");
                    let rec: Vec<(bool, F)> = io.0.borrow().clone();
                    let pi: Vec<F> = rec.iter().map(|x| x.1).collect();
                    let prover = MockProver::<F>::run(k, &circuit, vec![vec![], pi]).expect("synthesis (pass 2)");
                    let kv = if want_keygen() { keycmp::keygen_view(k, &circuit).unwrap_or_else(|e| json!({"error": format!("{e:?}")})) } else { J::Null };
                    finish(prover, rec, replay, foreign_ecc::extra::<$C>(&spec), kv);
                }};
            }
            match spec.params.get("curve").map(|s| s.as_str()).unwrap_or("k256") {
                "k256" => go!(foreign_ecc::K256),
                "bls" => go!(foreign_ecc::BlsG1),
                c => panic!("unknown emulated curve {c}"),
            }
        }
        "biguint" => biguint::run_family(&spec, k, replay),
        "map" => map::main_arm(spec, k, replay),
        "vector" => vector::main_arm(spec, k, replay),
        "pubin" => pubin::main_arm(spec, k, replay),
        #[cfg(has_h13)]
        "sha256pad" => sha256pad::main_arm(spec, k, replay),
        _ => panic!("unknown family {family}"),
    }
}
