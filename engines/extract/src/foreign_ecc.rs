//! Harness circuits for the emulated-curve (foreign) ECC chip (C06 foreign part, family "fecc").
//!
//! The chip is configured exactly as its own `FromScratch` implementation does (native gadget, scalar
//! field chip, base-field `FieldChip`, `ForeignEccChip::configure`), but by hand so that the harness keeps
//! a handle on the native gadget it uses to expose cells on the plain instance column.
//!
//! Points are brought in with the real `ForeignEccChip::assign` (limb range checks + conditional
//! on-curve gate) as scalar multiples k*G (k = 0: the identity); the LIMBS of both coordinates and the
//! identity flag are exposed natively, results likewise. The instance column therefore carries
//! (x limbs, y limbs, is_id) per point in call order.

use std::{cell::RefCell, marker::PhantomData};

use ff::PrimeField;
use group::Group;
use midnight_circuits::{
    ecc::{
        curves::{CircuitCurve, WeierstrassCurve},
        foreign::{nb_foreign_ecc_chip_columns, AssignedForeignPoint, ForeignEccChip, ForeignEccConfig},
    },
    field::{
        decomposition::chip::P2RDecompositionConfig,
        foreign::{nb_field_chip_columns, params::{FieldEmulationParams, MultiEmulationParams}, FieldChip, FieldChipConfig},
    },
    instructions::*,
    testing_utils::FromScratch,
    types::{AssignedBit, AssignedField, AssignedNative, Instantiable},
    CircuitField,
};
use midnight_curves::Fq as F;
use midnight_proofs::{
    circuit::{Layouter, SimpleFloorPlanner, Value},
    plonk::{Circuit, ConstraintSystem, Error},
};
use num_bigint::BigUint;

use crate::native::{IoLog, Spec, NG};

type MEP = MultiEmulationParams;

#[derive(Clone)]
pub struct FEccCircuit<C> {
    pub spec: Spec,
    pub io: IoLog,
    pub _c: PhantomData<C>,
}

pub struct Ctx<'a> {
    spec: &'a Spec,
    io: IoLog,
    next: RefCell<usize>,
}

impl<'a> Ctx<'a> {
    fn take(&self) -> BigUint {
        let mut i = self.next.borrow_mut();
        let v = self.spec.ins.get(*i).unwrap_or_else(|| panic!("op {} needs more than {} inputs", self.spec.op, *i)).clone();
        *i += 1;
        v
    }
    fn expose(&self, ng: &NG, l: &mut impl Layouter<F>, x: &AssignedNative<F>, is_in: bool) -> Result<(), Error> {
        x.value().map(|v| self.io.0.borrow_mut().push((is_in, *v)));
        ng.constrain_as_public_input(l, x)
    }
    fn expose_bit(&self, ng: &NG, l: &mut impl Layouter<F>, b: &AssignedBit<F>, is_in: bool) -> Result<(), Error> {
        let n: AssignedNative<F> = b.clone().into();
        self.expose(ng, l, &n, is_in)
    }
    fn in_bit(&self, ng: &NG, l: &mut impl Layouter<F>) -> Result<AssignedBit<F>, Error> {
        let v = self.take();
        let b: AssignedBit<F> = ng.assign(l, Value::known(v == BigUint::from(1u8)))?;
        self.expose_bit(ng, l, &b, true)?;
        Ok(b)
    }
}

pub fn scalar_of<K: PrimeField>(b: &BigUint) -> K {
    // reduce modulo the group order through Horner evaluation (inputs may be any non-negative integer)
    let mut acc = K::ZERO;
    let c = K::from(256u64);
    for byte in b.to_bytes_be() {
        acc = acc * c + K::from(byte as u64);
    }
    acc
}

pub fn base_of<K: CircuitField>(b: &BigUint) -> K {
    K::from_biguint(b).expect("base field element (must be < modulus)")
}

pub fn big_of<K: CircuitField>(k: &K) -> BigUint {
    k.to_biguint()
}

macro_rules! fecc_family {
    ($C:ty, $S:ty, $scalar_is_native:expr) => {
        impl Circuit<F> for FEccCircuit<$C> {
            type Config = (P2RDecompositionConfig, ForeignEccConfig<$C>, Option<FieldChipConfig>);
            type FloorPlanner = SimpleFloorPlanner;
            type Params = ();

            fn without_witnesses(&self) -> Self {
                unreachable!()
            }
            fn configure(meta: &mut ConstraintSystem<F>) -> Self::Config {
                type B = <$C as CircuitCurve>::Base;
                let ci = meta.instance_column();
                let i = meta.instance_column();
                let ngc = <NG as FromScratch<F>>::configure_from_scratch(meta, &[ci, i]);
                // scalar field chip: the native gadget itself when the scalar field is the native field,
                // otherwise an emulated-field chip on its own columns (as ForeignEccChip::configure_from_scratch)
                let sc = <$S as MkScalar<$C>>::cfg(meta);
                let nb = nb_foreign_ecc_chip_columns::<F, $C, MEP, $S>();
                let advice_columns = (0..nb).map(|_| meta.advice_column()).collect::<Vec<_>>();
                let base_field_config = FieldChip::<F, B, MEP, NG>::configure(meta, &advice_columns);
                let ecc = ForeignEccChip::<F, $C, MEP, $S, NG>::configure(meta, &base_field_config, &advice_columns);
                (ngc, ecc, sc)
            }
            fn synthesize(&self, config: Self::Config, mut layouter: impl Layouter<F>) -> Result<(), Error> {
                let ng = <NG as FromScratch<F>>::new_from_scratch(&config.0);
                let sc: $S = mk_scalar_chip::<$C, $S>(&ng, &config.2);
                let chip = ForeignEccChip::<F, $C, MEP, $S, NG>::new(&config.1, &ng, &sc);
                self.io.0.borrow_mut().clear();
                let ctx = Ctx { spec: &self.spec, io: self.io.clone(), next: RefCell::new(0) };
                run_op::<$C, $S>(&ctx, &chip, &ng, &mut layouter)?;
                ng.load_from_scratch(&mut layouter)
            }
        }
    };
}

pub trait MkScalar<C: CircuitCurve>: Sized {
    fn cfg(meta: &mut ConstraintSystem<F>) -> Option<FieldChipConfig>;
    fn mk(ng: &NG, cfg: &Option<FieldChipConfig>) -> Self;
}
impl<C: CircuitCurve> MkScalar<C> for NG {
    fn cfg(_meta: &mut ConstraintSystem<F>) -> Option<FieldChipConfig> {
        None
    }
    fn mk(ng: &NG, _cfg: &Option<FieldChipConfig>) -> Self {
        ng.clone()
    }
}
impl<C: CircuitCurve> MkScalar<C> for FieldChip<F, C::ScalarField, MEP, NG>
where
    MEP: FieldEmulationParams<F, C::ScalarField>,
{
    fn cfg(meta: &mut ConstraintSystem<F>) -> Option<FieldChipConfig> {
        let cols = (0..nb_field_chip_columns::<F, C::ScalarField, MEP>()).map(|_| meta.advice_column()).collect::<Vec<_>>();
        Some(FieldChip::<F, C::ScalarField, MEP, NG>::configure(meta, &cols))
    }
    fn mk(ng: &NG, cfg: &Option<FieldChipConfig>) -> Self {
        FieldChip::new(cfg.as_ref().expect("scalar chip config"), ng)
    }
}
fn mk_scalar_chip<C: CircuitCurve, S: MkScalar<C>>(ng: &NG, cfg: &Option<FieldChipConfig>) -> S {
    S::mk(ng, cfg)
}

pub type K256 = midnight_curves::k256::K256;
pub type BlsG1 = midnight_curves::G1Projective;
pub type K256Scalar = FieldChip<F, midnight_curves::k256::Fq, MEP, NG>;

fecc_family!(K256, K256Scalar, false);
fecc_family!(BlsG1, NG, true);

type Chip<C, S> = ForeignEccChip<F, C, MEP, S, NG>;
type Pt<C> = AssignedForeignPoint<F, C, MEP>;
type AF<C> = AssignedField<F, <C as CircuitCurve>::Base, MEP>;

fn expose_point<C, S>(ctx: &Ctx, chip: &Chip<C, S>, ng: &NG, l: &mut impl Layouter<F>, p: &Pt<C>, is_in: bool) -> Result<(), Error>
where
    C: WeierstrassCurve,
    MEP: FieldEmulationParams<F, C::Base>,
    S: ScalarFieldInstructions<F>,
    S::Scalar: midnight_circuits::types::InnerValue<Element = C::ScalarField>,
{
    let x: AF<C> = chip.x_coordinate(p);
    let y: AF<C> = chip.y_coordinate(p);
    for limb in x.limb_values().iter().chain(y.limb_values().iter()) {
        ctx.expose(ng, l, limb, is_in)?;
    }
    let is_id: AssignedBit<F> = chip.is_zero(l, p)?;
    ctx.expose_bit(ng, l, &is_id, is_in)
}

fn in_point<C, S>(ctx: &Ctx, chip: &Chip<C, S>, ng: &NG, l: &mut impl Layouter<F>) -> Result<Pt<C>, Error>
where
    C: WeierstrassCurve,
    MEP: FieldEmulationParams<F, C::Base>,
    S: ScalarFieldInstructions<F>,
    S::Scalar: midnight_circuits::types::InnerValue<Element = C::ScalarField>,
{
    let k: C::ScalarField = scalar_of(&ctx.take());
    let p: C::CryptographicGroup = C::CryptographicGroup::generator() * k;
    let ap: Pt<C> = chip.assign(l, Value::known(p))?;
    expose_point(ctx, chip, ng, l, &ap, true)?;
    Ok(ap)
}

fn in_elem<C, S>(ctx: &Ctx, chip: &Chip<C, S>, ng: &NG, l: &mut impl Layouter<F>, val: &BigUint) -> Result<AF<C>, Error>
where
    C: WeierstrassCurve,
    MEP: FieldEmulationParams<F, C::Base>,
    S: ScalarFieldInstructions<F>,
    S::Scalar: midnight_circuits::types::InnerValue<Element = C::ScalarField>,
{
    let v: C::Base = base_of(val);
    let x: AF<C> = chip.base_field_chip().assign(l, Value::known(v))?;
    for limb in x.limb_values().iter() {
        ctx.expose(ng, l, limb, true)?;
    }
    Ok(x)
}

/// affine coordinates (as integers) of k*G, (0, 0) for the identity: used by Python to pick coordinates
pub fn coords_of<C: WeierstrassCurve>(k: &BigUint) -> (BigUint, BigUint) {
    let s: C::ScalarField = scalar_of(k);
    let p: C::CryptographicGroup = C::CryptographicGroup::generator() * s;
    let c: C = p.into();
    match c.coordinates() {
        Some((x, y)) => (big_of(&x), big_of(&y)),
        None => (BigUint::from(0u8), BigUint::from(0u8)),
    }
}

pub fn run_op<C, S>(ctx: &Ctx, chip: &Chip<C, S>, ng: &NG, l: &mut impl Layouter<F>) -> Result<(), Error>
where
    C: WeierstrassCurve,
    MEP: FieldEmulationParams<F, C::Base>,
    S: ScalarFieldInstructions<F>,
    S::Scalar: midnight_circuits::types::InnerValue<Element = C::ScalarField>,
{
    let s = ctx.spec;
    match s.op.as_str() {
        "assign" => {
            let _p = in_point(ctx, chip, ng, l)?;
            Ok(())
        }
        "add" => {
            let p = in_point(ctx, chip, ng, l)?;
            let q = in_point(ctx, chip, ng, l)?;
            let r = chip.add(l, &p, &q)?;
            expose_point(ctx, chip, ng, l, &r, false)
        }
        "double" => {
            let p = in_point(ctx, chip, ng, l)?;
            let r = chip.double(l, &p)?;
            expose_point(ctx, chip, ng, l, &r, false)
        }
        "negate" => {
            let p = in_point(ctx, chip, ng, l)?;
            let r = chip.negate(l, &p)?;
            expose_point(ctx, chip, ng, l, &r, false)
        }
        "select" => {
            let c = ctx.in_bit(ng, l)?;
            let p = in_point(ctx, chip, ng, l)?;
            let q = in_point(ctx, chip, ng, l)?;
            let r = chip.select(l, &c, &p, &q)?;
            expose_point(ctx, chip, ng, l, &r, false)
        }
        "is_equal" => {
            let p = in_point(ctx, chip, ng, l)?;
            let q = in_point(ctx, chip, ng, l)?;
            let b = chip.is_equal(l, &p, &q)?;
            ctx.expose_bit(ng, l, &b, false)
        }
        "assert_equal" | "assert_not_equal" => {
            let p = in_point(ctx, chip, ng, l)?;
            let q = in_point(ctx, chip, ng, l)?;
            if s.op == "assert_equal" {
                chip.assert_equal(l, &p, &q)
            } else {
                chip.assert_not_equal(l, &p, &q)
            }
        }
        "cond_assert_equal" => {
            let c = ctx.in_bit(ng, l)?;
            let p = in_point(ctx, chip, ng, l)?;
            let q = in_point(ctx, chip, ng, l)?;
            chip.cond_assert_equal(l, &c, &p, &q)
        }
        "assert_non_zero" | "assert_zero" => {
            let p = in_point(ctx, chip, ng, l)?;
            if s.op == "assert_zero" {
                chip.assert_zero(l, &p)
            } else {
                chip.assert_non_zero(l, &p)
            }
        }
        // private helpers reached through hook H11 (forwarding wrappers, feature verif-hooks)
        "incomplete_add" => {
            let p = in_point(ctx, chip, ng, l)?;
            let q = in_point(ctx, chip, ng, l)?;
            let r = chip.verif_incomplete_add(l, &p, &q)?;
            expose_point(ctx, chip, ng, l, &r, false)
        }
        "assert_different_x" => {
            let p = in_point(ctx, chip, ng, l)?;
            let q = in_point(ctx, chip, ng, l)?;
            chip.verif_incomplete_assert_different_x(l, &p, &q)
        }
        // x / y as plain emulated elements -> a point (on-curve gate with a FIXED condition bit)
        "point_from_coordinates" => {
            // input: a scalar k; the coordinates of k*G come in as two plain emulated elements
            let (xv, yv) = coords_of::<C>(&ctx.take());
            let x = in_elem(ctx, chip, ng, l, &xv)?;
            let y = in_elem(ctx, chip, ng, l, &yv)?;
            let p = chip.point_from_coordinates(l, &x, &y)?;
            expose_point(ctx, chip, ng, l, &p, false)
        }
        // the chip's own public-input exposure of a point
        "pi" => {
            let p = in_point(ctx, chip, ng, l)?;
            let pis = chip.as_public_input(l, &p)?;
            for c in pis.iter() {
                ctx.expose(ng, l, c, false)?;
            }
            Ok(())
        }
        op => panic!("unknown fecc op {op}"),
    }
}

pub fn extra<C>(spec: &Spec) -> serde_json::Value
where
    C: WeierstrassCurve,
    MEP: FieldEmulationParams<F, C::Base>,
{
    let moduli: Vec<String> = <MEP as FieldEmulationParams<F, C::Base>>::moduli().iter().map(|m| m.to_string()).collect();
    let offpi: Vec<String> = if spec.op == "pi" {
        let k: C::ScalarField = scalar_of(&spec.ins[0]);
        let p: C::CryptographicGroup = C::CryptographicGroup::generator() * k;
        <Pt<C> as Instantiable<F>>::as_public_input(&p).iter().map(crate::dump::hex).collect()
    } else {
        vec![]
    };
    // coordinates of every input scalar multiple (so that Python never needs curve arithmetic of its own)
    let coords: Vec<serde_json::Value> = spec
        .ins
        .iter()
        .map(|k| {
            let (x, y) = coords_of::<C>(k);
            serde_json::json!([format!("0x{:x}", x), format!("0x{:x}", y)])
        })
        .collect();
    serde_json::json!({"family": "fecc", "op": spec.op, "params": spec.params,
        "emulated_modulus": format!("0x{:x}", <C::Base as CircuitField>::modulus()),
        "log2_base": <MEP as FieldEmulationParams<F, C::Base>>::LOG2_BASE,
        "nb_limbs": <MEP as FieldEmulationParams<F, C::Base>>::NB_LIMBS,
        "moduli": moduli,
        "curve_a": format!("0x{:x}", big_of(&<C as WeierstrassCurve>::A)),
        "curve_b": format!("0x{:x}", big_of(&<C as WeierstrassCurve>::B)),
        "offcircuit_pi": offpi,
        "ins": spec.ins.iter().map(|k| format!("0x{:x}", k)).collect::<Vec<_>>(),
        "coords": coords})
}
