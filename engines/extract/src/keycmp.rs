//! The REAL `keygen_vk` run with a recording commitment scheme: what the verifying key commits to
//! (permutation sigma polynomials, fixed columns incl. compressed selectors) is decoded and dumped next
//! to MockProver's own view of the same circuit, so that "the development-time checker sees the circuit
//! the keys are generated for" (an assumption of every engine-C obligation) becomes an obligation.

use std::{
    io::{self, Read, Write},
    ops::{Add, Mul},
    sync::Mutex,
};

use ff::{Field, PrimeField, WithSmallOrderMulGroup};
use group::GroupEncoding;
use midnight_curves::Fq as F;
use midnight_proofs::{
    plonk::{keygen_vk_with_k, Circuit, Error as PlonkError},
    poly::{
        commitment::{Guard, Params, PolynomialCommitmentScheme},
        Coeff, Error, LagrangeCoeff, Polynomial, ProverQuery, VerifierQuery,
    },
    transcript::{Hashable, Sampleable, Transcript},
    utils::helpers::{ProcessedSerdeObject, SerdeFormat},
};
use serde_json::{json, Value as J};
use subtle::{Choice, CtOption};

static STORE: Mutex<Vec<Vec<F>>> = Mutex::new(Vec::new());

#[derive(Clone, Copy, Debug, Default, PartialEq)]
pub struct RecCom(pub u32);

impl Add for RecCom {
    type Output = RecCom;
    fn add(self, _: RecCom) -> RecCom {
        unimplemented!("keygen never adds commitments")
    }
}
impl Mul<F> for RecCom {
    type Output = RecCom;
    fn mul(self, _: F) -> RecCom {
        unimplemented!("keygen never scales commitments")
    }
}
#[derive(Clone, Copy, Default, Debug)]
pub struct Repr4([u8; 4]);
impl AsRef<[u8]> for Repr4 {
    fn as_ref(&self) -> &[u8] {
        &self.0
    }
}
impl AsMut<[u8]> for Repr4 {
    fn as_mut(&mut self) -> &mut [u8] {
        &mut self.0
    }
}
impl GroupEncoding for RecCom {
    type Repr = Repr4;
    fn from_bytes(b: &Repr4) -> CtOption<Self> {
        CtOption::new(RecCom(u32::from_le_bytes(b.0)), Choice::from(1))
    }
    fn from_bytes_unchecked(b: &Repr4) -> CtOption<Self> {
        Self::from_bytes(b)
    }
    fn to_bytes(&self) -> Repr4 {
        Repr4(self.0.to_le_bytes())
    }
}
impl ProcessedSerdeObject for RecCom {
    fn read<R: Read>(r: &mut R, _: SerdeFormat) -> io::Result<Self> {
        let mut b = [0u8; 4];
        r.read_exact(&mut b)?;
        Ok(RecCom(u32::from_le_bytes(b)))
    }
    fn write<W: Write>(&self, w: &mut W, _: SerdeFormat) -> io::Result<()> {
        w.write_all(&self.0.to_le_bytes())
    }
}

#[derive(Clone, Debug)]
pub struct RecParams(pub u32);
impl Params for RecParams {
    fn max_k(&self) -> u32 {
        self.0
    }
    fn downsize(&mut self, k: u32) {
        self.0 = k
    }
}
#[derive(Debug)]
pub struct NoGuard;
impl Guard<F, RecCS> for NoGuard {
    fn verify(self, _: &()) -> Result<(), Error> {
        Ok(())
    }
}
#[derive(Clone, Debug)]
pub struct RecCS;

fn store(v: &[F]) -> RecCom {
    let mut s = STORE.lock().unwrap();
    s.push(v.to_vec());
    RecCom((s.len() - 1) as u32)
}

impl PolynomialCommitmentScheme<F> for RecCS {
    type Parameters = RecParams;
    type VerifierParameters = ();
    type Commitment = RecCom;
    type VerificationGuard = NoGuard;
    fn gen_params(k: u32) -> RecParams {
        RecParams(k)
    }
    fn get_verifier_params(_: &RecParams) {}
    fn commit(_: &RecParams, p: &Polynomial<F, Coeff>) -> RecCom {
        store(&p[..])
    }
    fn commit_lagrange(_: &RecParams, p: &Polynomial<F, LagrangeCoeff>) -> RecCom {
        store(&p[..])
    }
    fn multi_open<T: Transcript>(_: &RecParams, _: &[ProverQuery<F>], _: &mut T) -> Result<(), Error>
    where
        F: Sampleable<T::Hash> + std::hash::Hash + Ord + Hashable<T::Hash>,
        RecCom: Hashable<T::Hash>,
    {
        unimplemented!()
    }
    fn multi_prepare<'com, T: Transcript>(_: &[VerifierQuery<'com, F, Self>], _: &mut T) -> Result<NoGuard, Error>
    where
        F: Sampleable<T::Hash> + std::hash::Hash + Ord + Hashable<T::Hash>,
        RecCom: 'com + Hashable<T::Hash>,
    {
        unimplemented!()
    }
}

/// Runs the real keygen_vk on `circuit` and returns {"perm_cols": [...], "sigma_edges": [[cell, cell]..],
/// "fixed": [[hex...] per fixed column]} decoded from what the key commits to.
pub fn keygen_view<C: Circuit<F>>(k: u32, circuit: &C) -> Result<J, PlonkError> {
    STORE.lock().unwrap().clear();
    let vk = keygen_vk_with_k::<F, RecCS, C>(&RecParams(k), circuit, k)?;
    let n = 1usize << k;
    let store = STORE.lock().unwrap();
    let omega = vk.get_domain().get_omega();
    let delta = <F as PrimeField>::DELTA;
    let cols = vk.cs().permutation().get_columns();
    // table delta^j * omega^i -> (j, i)
    let mut tab = std::collections::HashMap::new();
    let mut dj = F::ONE;
    for j in 0..cols.len() {
        let mut w = dj;
        for i in 0..n {
            tab.insert(crate::dump::hex(&w), (j, i));
            w *= omega;
        }
        dj *= delta;
    }
    let colname = |c: &midnight_proofs::plonk::Column<midnight_proofs::plonk::Any>| {
        let t = match c.column_type() {
            midnight_proofs::plonk::Any::Advice(_) => "a",
            midnight_proofs::plonk::Any::Fixed => "f",
            midnight_proofs::plonk::Any::Instance => "i",
        };
        format!("{}{}", t, c.index())
    };
    let mut edges = vec![];
    let mut undecodable = 0usize;
    for (j, com) in vk.permutation().commitments().iter().enumerate() {
        let v = &store[com.0 as usize];
        for i in 0..n {
            match tab.get(&crate::dump::hex(&v[i])) {
                Some(&(j2, i2)) => {
                    if (j2, i2) != (j, i) {
                        edges.push(json!([format!("{}_{}", colname(&cols[j]), i), format!("{}_{}", colname(&cols[j2]), i2)]));
                    }
                }
                None => undecodable += 1,
            }
        }
    }
    let fixed: Vec<J> = vk
        .fixed_commitments()
        .iter()
        .map(|c| J::Array(store[c.0 as usize].iter().map(|f| J::String(crate::dump::hex(f))).collect()))
        .collect();
    Ok(json!({"perm_cols": cols.iter().map(colname).collect::<Vec<_>>(), "sigma_edges": edges,
              "undecodable": undecodable, "fixed": fixed, "n": n}))
}

#[allow(dead_code)]
fn _assert_traits() {
    fn f<T: WithSmallOrderMulGroup<3>>() {}
    f::<F>();
}
