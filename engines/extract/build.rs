//! Sets `--cfg has_h13` when the tree the extractor is built against (the path dependency on
//! midnight-circuits in THIS crate's Cargo.toml: /repo, or a scratch worktree in a shadow copy) contains hook
//! H13 (`VarLenSha256Gadget::verif_compute_padding`). Family `sha256pad` is compiled only then, so that the
//! extractor still builds - and every other family still works - against worktrees created before the hook
//! commit (there the family is reported as unknown and its obligations are INCONCLUSIVE, never HOLDS).
use std::{env, fs, path::Path};

fn main() {
    println!("cargo:rustc-check-cfg=cfg(has_h13)");
    println!("cargo:rerun-if-changed=Cargo.toml");
    let dir = env::var("CARGO_MANIFEST_DIR").unwrap();
    let toml = fs::read_to_string(Path::new(&dir).join("Cargo.toml")).unwrap_or_default();
    let circuits = toml
        .lines()
        .find(|l| l.trim_start().starts_with("midnight-circuits") && l.contains("path"))
        .and_then(|l| l.split("path").nth(1))
        .and_then(|r| r.split('"').nth(1))
        .map(|s| s.to_string());
    if let Some(c) = circuits {
        let f = Path::new(&c).join("src/hash/sha256/sha256_varlen.rs");
        println!("cargo:rerun-if-changed={}", f.display());
        if fs::read_to_string(&f).map(|s| s.contains("fn verif_compute_padding")).unwrap_or(false) {
            println!("cargo:rustc-cfg=has_h13");
        }
    }
}
