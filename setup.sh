#!/bin/sh
# Offline warm-up of the engine crates (every check rebuilds its Rust parts against /repo's working tree
# itself; this only fills the target directories so that the first check is not slowed by cold builds).
cd "$(dirname "$0")"
export CARGO_NET_OFFLINE=true
mkdir -p build evidence/replays
for c in extract symfield auto mirreplay; do
  if [ -d engines/$c ]; then
    ( cd engines/$c && CARGO_TARGET_DIR=../../build/$c cargo build --offline 2>&1 | tail -2 ) || echo "warm-up of $c failed (the checks will report it)"
  fi
done
echo setup done
