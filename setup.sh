#!/bin/sh
# Offline build of the framework pieces that do not depend on /repo's working tree being final:
# (every check rebuilds its Rust parts against /repo itself; this only warms the target dirs).
set -e
cd "$(dirname "$0")"
export CARGO_NET_OFFLINE=true
mkdir -p build evidence/replays
( cd engines/extract && CARGO_TARGET_DIR=../../build/extract cargo build --offline --bin cx ) 2>&1 | tail -3
echo setup done
